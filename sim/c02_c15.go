package sim

import (
	"context"
	"fmt"
	"os"
	"path/filepath"
	"time"

	"github.com/benbjohnson/litestream"
	"github.com/benbjohnson/litestream/file"
	"github.com/superfly/ltx"
)

// C02, C06, C07, C08, C15: history properties decided by the replica audit.

func sampleTXIDs(n ltx.TXID, k int, salt uint64) []ltx.TXID {
	var out []ltx.TXID
	if n == 0 {
		return out
	}
	if int(n) <= k {
		for i := ltx.TXID(1); i <= n; i++ {
			out = append(out, i)
		}
		return out
	}
	r := NewRng(salt)
	seen := map[ltx.TXID]bool{n: true, 1: true}
	out = append(out, 1, n)
	for len(out) < k {
		t := ltx.TXID(1 + r.Intn(int(n)))
		if !seen[t] {
			seen[t] = true
			out = append(out, t)
		}
	}
	return out
}

// ---- C02 -------------------------------------------------------------------

var lsWeightsC02 = []int{14, 5, 8, 1, 1, 8, 8, 5, 2}

func genC02(r *Rng, tier string, idx int) *Program {
	p := &Program{Property: "C02", Engine: "HIST"}
	p.Cfg = genConfig(r)
	// chunked sync is the norm in half of the runs
	if r.Chance(0.5) {
		p.Cfg.MaxSyncWALBytes = []int64{1, 1500, 6000}[r.Intn(3)]
	}
	n := r.Range(6, 30)
	pi := []float64{0.2, 0.5, 0.8}[r.Intn(3)]
	p.Ops = genHistory(r, &p.Cfg, n, lsWeightsC02, pi)
	// 30% of the runs also restart the instance (C04 alphabet) with the
	// application updating old pages and checkpointing while litestream is down.
	if idx%10 >= 7 {
		p.Variant = "with-restart"
		var ops []Op
		cut := r.Intn(len(p.Ops) + 1)
		ops = append(ops, p.Ops[:cut]...)
		ops = append(ops, Op{Kind: "ls_sync_wait"})
		down := []Step{}
		for i := 0; i < r.Range(1, 4); i++ {
			down = append(down, Step{K: "txn", Stmts: []Stmt{{K: "upd", T: 0, Key: r.Intn(100), N: r.Range(20, 200), Sz: 40, Seed: r.Uint64() >> 1}}})
		}
		if r.Chance(0.7) {
			down = append(down, Step{K: "ckpt", Mode: PickOf(r, []string{"PASSIVE", "FULL"})})
		}
		ops = append(ops, Op{Kind: "ls_restart", Steps: down})
		for i := 0; i < r.Range(1, 5); i++ {
			switch r.Intn(3) {
			case 0:
				ops = append(ops, Op{Kind: "ls_sync_chunk"})
			case 1:
				ops = append(ops, Op{Kind: "ls_snapshot"})
			default:
				ops = append(ops, appOp(genTxn(r, &p.Cfg)))
			}
		}
		ops = append(ops, p.Ops[cut:]...)
		p.Ops = ops
	}
	p.Ops = append(p.Ops, Op{Kind: "ls_sync_wait"})
	return p
}

func init() {
	// one bounded chunk of DB.Sync (what a monitor tick interrupted by other work looks like)
	extraOps["ls_sync_chunk"] = func(e *Env, op *Op) (string, bool) {
		if e.LS == nil {
			return "noop:down", false
		}
		return errStr(litestream.VerifSyncOnce(e.LS.DB, context.Background())), false
	}
}

func runC02(t testingT, p *Program) *Result {
	return RunHIST(t, p, func(e *Env) {
		e.AtEnd = func(e *Env) *Violation {
			c, v := e.buildChain()
			if v != nil {
				return v
			}
			e.Res.Probes["chain:txids"] = int(c.N)
			if v := e.auditHigherLevels(c); v != nil && v.Class != "level-first-not-1" && v.Class != "level-not-contiguous" && v.Class != "compaction-timestamp" {
				return v
			}
			return e.auditRestoreTXIDs(c, sampleTXIDs(c.N, 6, e.Prog.Seed))
		}
	})
}

// ---- C06 -------------------------------------------------------------------

func genC06(r *Rng, tier string, idx int) *Program {
	p := &Program{Property: "C06", Engine: "HIST"}
	p.Cfg = genConfig(r)
	nl := r.Range(1, 8)
	p.Cfg.LevelMs = nil
	iv := int64(2000)
	for i := 0; i < nl; i++ {
		p.Cfg.LevelMs = append(p.Cfg.LevelMs, iv)
		iv *= int64(r.Range(2, 5))
	}
	p.Cfg.L0RetentionMs = []int64{0, 300000}[r.Intn(2)] // retention is C07's business
	p.Cfg.SnapshotRetentionMs = 24 * 3600 * 1000
	p.Cfg.StepGapMs = []int64{500, 1000, 2500, 9000}[r.Intn(4)]
	n := r.Range(8, 45)
	if r.Chance(0.06) {
		// long backlog: far more files wait for one compaction (or one upload
		// pass) than any batch limit in the code, at one or two levels
		p.Variant = "backlog"
		small := Stmt{K: "ins", T: 0, Key: 0, N: 1, Sz: 20}
		for round := r.Range(1, 2); round > 0; round-- {
			l1Backlog := nl >= 2 && r.Chance(0.5) // many level-1 files waiting for level 2, else many level-0 files
			for k := r.Range(60, 150); k > 0; k-- {
				s := small
				s.Key, s.Seed = r.Intn(300), r.Uint64()>>1
				p.Ops = append(p.Ops, appOp(Step{K: "txn", Stmts: []Stmt{s}}), Op{Kind: PickOf(r, []string{"ls_sync_wait", "ls_sync_wait", "ls_sync"})})
				if l1Backlog && r.Chance(0.9) {
					p.Ops = append(p.Ops, Op{Kind: "ls_compact_raw", Level: 1})
				}
			}
			p.Ops = append(p.Ops, Op{Kind: "ls_sync_wait"}, Op{Kind: "ls_compact_raw", Level: 1})
			if nl >= 2 {
				p.Ops = append(p.Ops, Op{Kind: "ls_compact_raw", Level: 2})
			}
		}
		n = r.Range(2, 10)
	}
	for i := 0; i < n; i++ {
		switch r.Pick([]int{30, 22, 30, 4, 4, 6, 4}) {
		case 0:
			p.Ops = append(p.Ops, appOp(genAppStep(r, &p.Cfg)))
		case 1:
			p.Ops = append(p.Ops, Op{Kind: "ls_sync_wait"})
		case 2:
			lv := r.Range(1, nl)
			kind := "ls_compact"
			if r.Chance(0.3) {
				kind = "ls_compact_raw"
			}
			p.Ops = append(p.Ops, Op{Kind: kind, Level: lv})
		case 3:
			p.Ops = append(p.Ops, Op{Kind: "ls_compact", Level: 9})
		case 4:
			p.Ops = append(p.Ops, Op{Kind: "ls_snapshot"})
		case 5:
			p.Ops = append(p.Ops, Op{Kind: "ls_ckpt", Mode: ckptModes[r.Pick([]int{5, 2, 2, 4})]})
		default:
			p.Ops = append(p.Ops, Op{Kind: "sleep", Ms: []int64{1500, 7000, 40000, 200000}[r.Intn(4)]})
		}
	}
	p.Ops = append(p.Ops, Op{Kind: "ls_sync_wait"})
	for lv := 1; lv <= nl; lv++ {
		if r.Chance(0.6) {
			p.Ops = append(p.Ops, Op{Kind: "sleep", Ms: p.Cfg.LevelMs[lv-1]}, Op{Kind: "ls_compact", Level: lv})
		}
	}
	return p
}

func runC06(t testingT, p *Program) *Result {
	return RunHIST(t, p, func(e *Env) {
		audit := func(e *Env, k int) *Violation {
			c, v := e.buildChain()
			if v != nil {
				return v
			}
			e.Res.Probes["chain:txids"] = int(c.N)
			if v := e.auditHigherLevels(c); v != nil {
				return v
			}
			return e.auditRestoreTXIDs(c, sampleTXIDs(c.N, k, e.Prog.Seed+uint64(e.curOp)))
		}
		e.AfterOp = func(e *Env, i int, op *Op, res string) *Violation {
			if (op.Kind == "ls_compact" || op.Kind == "ls_compact_raw") && res == "ok" {
				e.Res.Probes["compactions_ok"]++
				return audit(e, 3)
			}
			return nil
		}
		e.AtEnd = func(e *Env) *Violation { return audit(e, 8) }
	})
}

// ---- C07 -------------------------------------------------------------------

func genC07(r *Rng, tier string, idx int) *Program {
	p := &Program{Property: "C07", Engine: "HIST"}
	p.Cfg = genConfig(r)
	p.Cfg.LevelMs = []int64{3000, 15000, 60000}[:r.Range(1, 3)]
	p.Cfg.SnapshotRetentionMs = []int64{5000, 30000, 200000}[r.Intn(3)]
	p.Cfg.SnapshotIntervalMs = []int64{4000, 20000, 100000}[r.Intn(3)]
	p.Cfg.L0RetentionMs = []int64{1, 2000, 20000, 300000}[r.Intn(4)]
	p.Cfg.RetentionEnabled = r.Chance(0.75)
	p.Cfg.StepGapMs = []int64{500, 1500, 4000, 25000}[r.Intn(4)]
	n := r.Range(10, 50)
	for i := 0; i < n; i++ {
		switch r.Pick([]int{25, 20, 14, 8, 8, 8, 6, 6, 5}) {
		case 0:
			p.Ops = append(p.Ops, appOp(genAppStep(r, &p.Cfg)))
		case 1:
			p.Ops = append(p.Ops, Op{Kind: "ls_sync_wait"})
		case 2:
			p.Ops = append(p.Ops, Op{Kind: "ls_compact", Level: r.Range(1, len(p.Cfg.LevelMs))})
		case 3:
			p.Ops = append(p.Ops, Op{Kind: "ls_compact", Level: 9})
		case 4:
			p.Ops = append(p.Ops, Op{Kind: "ls_snapshot"})
		case 5:
			p.Ops = append(p.Ops, Op{Kind: "ls_snap_retention"})
		case 6:
			p.Ops = append(p.Ops, Op{Kind: "ls_l0_retention"})
		case 7:
			if r.Chance(0.5) {
				p.Ops = append(p.Ops, Op{Kind: "ls_snap_retention_only"})
			} else {
				p.Ops = append(p.Ops, Op{Kind: "ls_txid_retention", Level: r.Range(0, len(p.Cfg.LevelMs))})
			}
		default:
			// age: advance the clock, or age individual replica files around the thresholds
			if r.Chance(0.5) {
				p.Ops = append(p.Ops, Op{Kind: "sleep", Ms: []int64{1000, 6000, 31000, 250000}[r.Intn(4)]})
			} else {
				p.Ops = append(p.Ops, Op{Kind: "age_files", Ms: []int64{-3000, 2000, 6000, 40000, 400000}[r.Intn(5)], N: int64(r.Uint64() >> 33)})
			}
		}
	}
	p.Ops = append(p.Ops, Op{Kind: "ls_sync_wait"}, Op{Kind: "ls_snap_retention"}, Op{Kind: "ls_l0_retention"})
	return p
}

func init() {
	// age_files: perturbation — shifts the timestamps of a seed-chosen subset of
	// replica files by -Ms (what a slow/late uploader or a provider clock produces).
	extraOps["age_files"] = func(e *Env, op *Op) (string, bool) {
		r := NewRng(uint64(op.N) + 5)
		n := 0
		for _, fi := range e.FS.AllListing() {
			if r.Chance(0.5) {
				continue
			}
			path := e.repFilePath(fi.Level, fi.MinTXID, fi.MaxTXID)
			t := fi.CreatedAt.Add(-time.Duration(op.Ms) * time.Millisecond)
			if os.Chtimes(path, t, t) == nil {
				n++
			}
		}
		e.Res.Probes["aged_files"] += n
		return "ok", false
	}
}

func (e *Env) repFilePath(level int, min, max ltx.TXID) string {
	return litestream.LTXFilePath(e.RepDir, level, min, max)
}

func runC07(t testingT, p *Program) *Result {
	return RunHIST(t, p, func(e *Env) {
		hadSnapshot := false
		var lastAck *AckRec
		e.OnAck = func(e *Env, i int) *Violation {
			if v := e.checkAckC01(i); v != nil {
				return v
			}
			if len(e.Acks) > 0 {
				lastAck = &e.Acks[len(e.Acks)-1]
			}
			return nil
		}
		e.AfterOp = func(e *Env, i int, op *Op, res string) *Violation {
			if len(e.FS.Listing(litestream.SnapshotLevel)) > 0 {
				hadSnapshot = true
			}
			switch op.Kind {
			case "ls_snap_retention", "ls_snap_retention_only", "ls_l0_retention", "ls_txid_retention", "ls_compact":
			default:
				return nil
			}
			e.Res.Probes["retention_passes"]++
			if hadSnapshot && len(e.FS.Listing(litestream.SnapshotLevel)) == 0 {
				return e.fail("no-snapshot-left", "after %s no snapshot remains although one existed", op.Kind)
			}
			l0 := e.FS.Listing(0)
			for k := 1; k < len(l0); k++ {
				if l0[k].MinTXID != l0[k-1].MaxTXID+1 {
					v := e.fail("l0-not-contiguous", "after %s the surviving level-0 files are not one contiguous run: %d then %d", op.Kind, l0[k-1].MaxTXID, l0[k].MinTXID)
					return v
				}
			}
			if lastAck == nil {
				return nil
			}
			// nothing was replicated since the last ack unless a sync op ran; the
			// latest restorable state must still be a state at or after that ack.
			e.Res.Checks++
			img, err := e.restoreAlone(nil)
			if err != nil {
				v := e.fail("latest-not-restorable", "after %s the latest replicated state can no longer be restored: %v", op.Kind, err)
				v.Facts["op"] = op.Kind
				return v
			}
			if m := e.matchStates(img, lastAck.StateLo, len(e.Led.States)-1); len(m) == 0 {
				all := e.matchStates(img, 0, len(e.Led.States)-1)
				v := e.fail("latest-regressed", "after %s restore of the latest state equals ledger states %v, older than the last acknowledged state window %d..", op.Kind, all, lastAck.StateLo)
				return v
			}
			return nil
		}
	})
}

// ---- C08 -------------------------------------------------------------------

func genC08(r *Rng, tier string, idx int) *Program {
	var p *Program
	if r.Chance(0.5) {
		p = genC07(r, tier, idx)
	} else {
		p = genC06(r, tier, idx)
	}
	p.Property = "C08"
	// perturbations: lose objects, resurrect deleted ones, age files
	var ops []Op
	for _, op := range p.Ops {
		ops = append(ops, op)
		if r.Chance(0.12) {
			switch r.Intn(3) {
			case 0:
				ops = append(ops, Op{Kind: "lose_object", N: int64(r.Uint64() >> 33)})
			case 1:
				ops = append(ops, Op{Kind: "resurrect_object", N: int64(r.Uint64() >> 33)})
			default:
				ops = append(ops, Op{Kind: "age_files", Ms: []int64{-3000, 2000, 40000}[r.Intn(3)], N: int64(r.Uint64() >> 33)})
			}
			ops = append(ops, Op{Kind: "audit_plans"})
		}
	}
	p.Ops = append(ops, Op{Kind: "audit_plans"})
	// listings no history of this litestream version produces (files left by
	// other versions, interrupted compactions, manual copies): seeded synthetic
	// listings, read through the real file client
	n := 6
	if tier == "thorough" {
		n = 60
	}
	p.Ops = append(p.Ops, Op{Kind: "synthetic_plans", N: int64(r.Uint64() >> 2), Level: n})
	return p
}

// synthListing writes one seeded synthetic replica listing (empty files with
// chosen names and modification times) below dir.
func synthListing(r *Rng, dir string) {
	n := r.Range(1, 24)
	t0 := time.Now().Add(-time.Hour).Truncate(time.Second)
	randomTimes := r.Chance(0.3)
	at := func(max int) time.Time {
		if randomTimes {
			return t0.Add(time.Duration(r.Intn(n*1000+1)) * time.Millisecond)
		}
		d := time.Duration(max) * time.Second
		if r.Chance(0.2) {
			d += time.Duration(r.Intn(1500)) * time.Millisecond // uploaded later than its newest input
		}
		return t0.Add(d)
	}
	put := func(level, min, max int) {
		p := litestream.LTXFilePath(dir, level, ltx.TXID(min), ltx.TXID(max))
		os.MkdirAll(filepath.Dir(p), 0o755)
		if _, err := os.Stat(p); err == nil {
			return
		}
		os.WriteFile(p, nil, 0o644)
		tm := at(max)
		os.Chtimes(p, tm, tm)
	}
	// level 0: a suffix of 1..n, sometimes with one hole
	l0 := r.Range(1, n+1)
	hole := -1
	if r.Chance(0.2) && n-l0 >= 2 {
		hole = r.Range(l0+1, n-1)
	}
	for i := l0; i <= n; i++ {
		if i != hole {
			put(0, i, i)
		}
	}
	// compacted levels: a partition of 1..m with a pruned prefix, sometimes with
	// overlapping (wide or narrow) extra files
	levels := []int{1, 2}
	if r.Chance(0.3) {
		levels = append(levels, 3)
	}
	for _, lv := range levels {
		if r.Chance(0.15) {
			continue
		}
		m := r.Range(1, n)
		var segs [][2]int
		for a := 1; a <= m; {
			b := a + r.Intn(5)
			if b > m {
				b = m
			}
			segs = append(segs, [2]int{a, b})
			a = b + 1
		}
		drop := 0
		if r.Chance(0.5) {
			drop = r.Intn(len(segs) + 1)
		}
		for _, s := range segs[drop:] {
			if r.Chance(0.05) {
				continue // lost object
			}
			put(lv, s[0], s[1])
		}
		for k := r.Pick([]int{5, 3, 2}); k > 0; k-- {
			a := r.Range(1, n)
			b := r.Range(a, n)
			put(lv, a, b)
		}
	}
	// snapshots
	for k := r.Pick([]int{3, 4, 2, 1}); k > 0; k-- {
		put(litestream.SnapshotLevel, 1, r.Range(1, n))
	}
}

func init() {
	extraOps["lose_object"] = func(e *Env, op *Op) (string, bool) {
		files := e.FS.AllListing()
		if len(files) == 0 {
			return "noop", false
		}
		f := files[int(op.N)%len(files)]
		os.Remove(e.repFilePath(f.Level, f.MinTXID, f.MaxTXID))
		e.Res.Probes["perturb:lose_object"]++
		return "ok", false
	}
	extraOps["resurrect_object"] = func(e *Env, op *Op) (string, bool) {
		if len(e.FS.Deleted) == 0 {
			return "noop", false
		}
		k := e.FS.Deleted[int(op.N)%len(e.FS.Deleted)]
		vers := e.FS.Arch[k]
		if len(vers) == 0 {
			return "noop", false
		}
		path := e.repFilePath(k.Level, k.Min, k.Max)
		if os.WriteFile(path, vers[len(vers)-1].Data, 0o644) == nil {
			t := vers[len(vers)-1].Created
			os.Chtimes(path, t, t)
			e.Res.Probes["perturb:resurrect_object"]++
		}
		return "ok", false
	}
	extraOps["synthetic_plans"] = func(e *Env, op *Op) (string, bool) {
		r := NewRng(uint64(op.N))
		for i := 0; i < op.Level && e.Viol == nil; i++ {
			dir := filepath.Join(e.Scratch, fmt.Sprintf("synth-%d", i))
			os.RemoveAll(dir)
			synthListing(r, dir)
			client := file.NewReplicaClient(dir)
			var files []pfile
			for lv := 0; lv <= litestream.SnapshotLevel; lv++ {
				itr, err := client.LTXFiles(context.Background(), lv, 0, false)
				if err != nil {
					continue
				}
				for itr.Next() {
					fi := itr.Item()
					files = append(files, pfile{fi.Level, fi.MinTXID, fi.MaxTXID, fi.CreatedAt})
				}
				itr.Close()
			}
			if v := e.auditPlansOn(client, files, 1000); v != nil {
				v.Facts["synthetic_listing"] = true
				e.Viol = v
			}
			e.Res.Probes["synthetic_listings"]++
			os.RemoveAll(dir)
		}
		return "ok", false
	}
	extraOps["audit_plans"] = func(e *Env, op *Op) (string, bool) {
		if v := e.auditPlans(10); v != nil && e.Viol == nil {
			e.Viol = v
		}
		e.Res.Probes["plan_audits"]++
		return "ok", false
	}
}

func runC08(t testingT, p *Program) *Result {
	return RunHIST(t, p, nil)
}

// ---- C15 -------------------------------------------------------------------

func genC15(r *Rng, tier string, idx int) *Program {
	var p *Program
	switch r.Intn(3) {
	case 0:
		p = genC07(r, tier, idx)
	case 1:
		p = genC06(r, tier, idx)
	default:
		p = genC01(r, tier, idx)
	}
	p.Property = "C15"
	if p.Cfg.StepGapMs < 2 {
		p.Cfg.StepGapMs = 1000
	}
	var ops []Op
	for _, op := range p.Ops {
		if op.Kind == "age_files" || op.Kind == "ls_close" {
			continue // file times are the replication times in this property
		}
		ops = append(ops, op)
		if r.Chance(0.06) {
			ops = append(ops, Op{Kind: "audit_timestamps", N: 5})
		}
	}
	if r.Chance(0.3) {
		// a process that goes down with level-0 files it could not upload, and a
		// snapshot (or other upload) taken by the next process before the backlog
		// is worked off: replication times of the backlog are later than anything
		// the replica held when the new process started
		p.Variant = "outage-restart"
		for k := r.Range(1, 2); k > 0; k-- {
			ops = append(ops, appOp(genTxn(r, &p.Cfg)), Op{Kind: "ls_sync_wait"})
		}
		ops = append(ops, Op{Kind: "store_down"})
		for k := r.Range(1, 3); k > 0; k-- {
			ops = append(ops, appOp(genTxn(r, &p.Cfg)), Op{Kind: PickOf(r, []string{"ls_sync", "ls_sync_wait"})})
		}
		ops = append(ops, Op{Kind: "ls_restart"}, Op{Kind: "store_up"}, Op{Kind: "sleep", Ms: 3000})
		switch r.Intn(3) {
		case 0:
			ops = append(ops, Op{Kind: "ls_snapshot"})
		case 1:
			ops = append(ops, Op{Kind: "ls_compact", Level: 9})
		default:
			ops = append(ops, Op{Kind: "ls_sync"}, Op{Kind: "ls_snapshot"})
		}
		ops = append(ops, Op{Kind: "sleep", Ms: 2000}, appOp(genTxn(r, &p.Cfg)), Op{Kind: "ls_sync_wait"})
		if r.Chance(0.5) {
			ops = append(ops, Op{Kind: "sleep", Ms: 6000}, Op{Kind: "ls_compact", Level: 1})
		}
	}
	p.Ops = append(ops, Op{Kind: "audit_timestamps", N: 14})
	return p
}

func init() {
	extraOps["audit_timestamps"] = func(e *Env, op *Op) (string, bool) {
		c, v := e.buildChain()
		if v != nil {
			// a broken chain is C02's finding; C15 cannot be evaluated on it
			e.Res.Probes["chain_broken"]++
			return "noop:chain", false
		}
		e.Res.Probes["chain:txids"] = int(c.N)
		if v := e.auditTimestamps(c, int(op.N)); v != nil && e.Viol == nil {
			e.Viol = v
		}
		e.Res.Probes["timestamp_audits"]++
		return "ok", false
	}
}

func runC15(t testingT, p *Program) *Result { return RunHIST(t, p, nil) }

func init() {
	register(&Prop{ID: "C02", Engine: "HIST", Gen: genC02, Run: runC02, Nontrivial: func(r *Result) bool { return r.Probes["chain:txids"] >= 2 }})
	register(&Prop{ID: "C06", Engine: "HIST", Gen: genC06, Run: runC06, Nontrivial: func(r *Result) bool { return r.Probes["compactions_ok"] >= 1 }})
	register(&Prop{ID: "C07", Engine: "HIST", Gen: genC07, Run: runC07, Nontrivial: func(r *Result) bool { return r.Probes["retention_passes"] >= 1 && r.Acks > 0 }})
	register(&Prop{ID: "C08", Engine: "HIST", Gen: genC08, Run: runC08, Nontrivial: func(r *Result) bool { return r.Probes["plan_audits"] >= 1 && r.Checks >= 3 }})
	register(&Prop{ID: "C15", Engine: "HIST", Gen: genC15, Run: runC15, Nontrivial: func(r *Result) bool { return r.Probes["timestamp_audits"] >= 1 && r.Probes["chain:txids"] >= 2 }})
}
