package sim

import (
	"context"
	"fmt"
	"os"
	"path/filepath"
	"strings"
	"time"

	"github.com/benbjohnson/litestream"
	"github.com/benbjohnson/litestream/file"
	"github.com/superfly/ltx"
)

// C03 — killing litestream at any instant loses nothing acknowledged and needs no repair.

func (e *Env) fileClient() *file.ReplicaClient { return file.NewReplicaClient(e.RepDir) }

func init() {
	// restore into <dir>/restore-N.db (what `litestream restore -o` does), executed by the node
	extraOps["ls_restore"] = func(e *Env, op *Op) (string, bool) {
		r := litestream.NewReplicaWithClient(nil, e.fileClient())
		opt := litestream.NewRestoreOptions()
		opt.OutputPath = filepath.Join(e.Dir, fmt.Sprintf("restore-%d.db", op.N))
		return errStr(r.Restore(context.Background(), opt)), false
	}
}

func genC03(r *Rng, tier string, idx int) *Program {
	p := &Program{Property: "C03", Engine: "NODE"}
	sr := r
	if tier == "thorough" {
		// thorough: scenario = idx / 512, kill point = idx % 512 + 1 (every k of every scenario)
		sr = NewRng(RunSeed(uint64(idx/512), "C03-scenario", 0))
	}
	p.Cfg = genConfig(sr)
	p.Cfg.LevelMs = []int64{2000, 9000}[:sr.Range(1, 2)]
	p.Cfg.L0RetentionMs = []int64{0, 1, 3000}[sr.Intn(3)]
	p.Cfg.SnapshotRetentionMs = []int64{4000, 30000}[sr.Intn(2)]
	p.Cfg.StepGapMs = []int64{1000, 2500}[sr.Intn(2)]
	n := sr.Range(8, 26)
	nRestore := 0
	for i := 0; i < n; i++ {
		switch sr.Pick([]int{40, 8, 18, 6, 5, 4, 7, 4, 3, 3, 2}) {
		case 0:
			p.Ops = append(p.Ops, appOp(genAppStep(sr, &p.Cfg)))
		case 1:
			p.Ops = append(p.Ops, Op{Kind: "ls_sync"})
		case 2:
			p.Ops = append(p.Ops, Op{Kind: "ls_sync_wait"})
		case 3:
			p.Ops = append(p.Ops, Op{Kind: "ls_replica_sync"})
		case 4:
			p.Ops = append(p.Ops, Op{Kind: "ls_ckpt", Mode: ckptModes[sr.Pick([]int{5, 2, 2, 4})]})
		case 5:
			p.Ops = append(p.Ops, Op{Kind: "ls_snapshot"})
		case 6:
			lv := sr.Range(1, len(p.Cfg.LevelMs))
			if sr.Chance(0.3) {
				lv = 9
			}
			p.Ops = append(p.Ops, Op{Kind: "ls_compact", Level: lv})
		case 7:
			p.Ops = append(p.Ops, Op{Kind: "ls_snap_retention"})
		case 8:
			p.Ops = append(p.Ops, Op{Kind: "ls_l0_retention"})
		case 9:
			nRestore++
			p.Ops = append(p.Ops, Op{Kind: "ls_restore", N: int64(nRestore)})
		default:
			p.Ops = append(p.Ops, Op{Kind: "sleep", Ms: []int64{2500, 10000, 40000}[sr.Intn(3)]})
		}
	}
	p.Ops = append(p.Ops, Op{Kind: "ls_sync_wait"})
	p.Params = map[string]int64{"torn": int64(r.Intn(2))}
	if tier == "thorough" {
		p.Params["kill"] = int64(idx%512 + 1)
		p.Params["scenario"] = int64(idx / 512)
	} else {
		p.Params["kill_permille"] = int64(r.Intn(1000))
	}
	return p
}

// nodeRun executes the program against node processes. killAt=0: no kill.
type nodeRun struct {
	e        *Env
	K        int  // FS ops of the first incarnation (when not killed)
	Killed   bool // the kill fired
	KillOp   int
	KillDesc string
}

func (e *Env) verifyLTXFiles(root string) *Violation {
	var v *Violation
	filepath.Walk(root, func(path string, info os.FileInfo, err error) error {
		if err != nil || info.IsDir() || v != nil {
			return nil
		}
		if !strings.HasSuffix(path, ".ltx") {
			return nil
		}
		f, err := os.Open(path)
		if err != nil {
			return nil
		}
		defer f.Close()
		e.Res.Checks++
		if err := ltx.NewDecoder(f).Verify(); err != nil {
			v = e.fail("half-written-ltx-visible", "after the kill %s exists under its final name but does not verify: %v", e.san(path), err)
		}
		return nil
	})
	return v
}

// logicalMatch compares the user-visible content of img with ledger states lo..hi.
func (e *Env) logicalMatch(img []byte, lo, hi int) bool {
	p := filepath.Join(e.Scratch, "lm-a.db")
	os.WriteFile(p, img, 0o644)
	da, err := DumpDB(p, true)
	for _, s := range []string{"", "-wal", "-shm"} {
		os.Remove(p + s)
	}
	if err != nil {
		return false
	}
	seen := map[string]bool{}
	for j := hi; j >= lo && j >= 0; j-- {
		st := e.Led.States[j]
		if st.Tag == "ls" && j != hi {
			continue
		}
		if seen[st.Hash()] {
			continue
		}
		seen[st.Hash()] = true
		q := filepath.Join(e.Scratch, "lm-b.db")
		os.WriteFile(q, st.Bytes(e.Led.PageSize), 0o644)
		db, err := DumpDB(q, true)
		for _, s := range []string{"", "-wal", "-shm"} {
			os.Remove(q + s)
		}
		if err == nil && db == da {
			return true
		}
	}
	return false
}

// checkAckNode: C01 oracle evaluated by the parent for an ack reported by the node.
// States that litestream committed and overwrote inside one op are not visible to
// the parent's ledger, so a physical mismatch falls back to logical equality.
func (e *Env) checkAckNode(opIdx int) *Violation {
	v := e.checkAckC01(opIdx)
	if v == nil || v.Class != "ack-restore-mismatch" {
		return v
	}
	img, err := e.restoreAlone(nil)
	if err != nil {
		return v
	}
	if e.logicalMatch(img, e.AckStartApp, len(e.Led.States)-1) {
		e.Res.Probes["ack_logical_fallback"]++
		e.Acks = append(e.Acks, AckRec{Op: opIdx, StateLo: e.AckStartApp, StateHi: len(e.Led.States) - 1, Restored: -1})
		return nil
	}
	return v
}

func runC03(t testingT, p *Program) *Result {
	res := &Result{Seed: p.Seed, Probes: map[string]int{}, FaultsHit: map[string]int{}}
	wall := time.Now()
	// dry run without a kill: learns K, and is itself a control run
	kill := int(p.Params["kill"])
	if kill == 0 {
		r0 := runNodeOnce(p, 0, res)
		if res.Trouble != "" || res.Violation != nil {
			res.WallMs = time.Since(wall).Milliseconds()
			return res
		}
		if r0.K > 0 {
			kill = 1 + int(p.Params["kill_permille"])*r0.K/1000
		}
		res.Probes["dry_runs"]++
	}
	if kill > 0 {
		runNodeOnce(p, kill, res)
	}
	res.WallMs = time.Since(wall).Milliseconds()
	return res
}

func runNodeOnce(p *Program, killAt int, res *Result) *nodeRun {
	base := os.Getenv("VERIF_TMP")
	if base == "" {
		base = "/dev/shm"
	}
	dir := filepath.Join(base, fmt.Sprintf("verif-%d-%d", os.Getpid(), runCounter.Add(1)))
	os.RemoveAll(dir)
	os.MkdirAll(dir, 0o755)
	defer os.RemoveAll(dir)
	e := &Env{Prog: p, Dir: dir, DBPath: filepath.Join(dir, "db"), RepDir: filepath.Join(dir, "replica"),
		Scratch: filepath.Join(dir, "scratch"), Res: res, siteCount: map[string]int{}, SitesSeen: map[string]int{}}
	os.MkdirAll(e.Scratch, 0o755)
	e.Probe = newProbeHandler()
	nr := &nodeRun{e: e}
	app, err := CreateAppDB(e.DBPath, &p.Cfg, p.Seed)
	if err != nil {
		res.Trouble = "create app db: " + err.Error()
		return nr
	}
	e.App = app
	defer func() { e.App.Close() }()
	led, err := NewLedger(e.DBPath)
	if err != nil {
		res.Trouble = "ledger: " + err.Error()
		return nr
	}
	e.Led = led
	var clock int64
	init := &NodeInit{Dir: dir, Cfg: p.Cfg, KillAt: killAt, Mode: "replicate"}
	node, _, err := StartNode(init)
	if err != nil {
		res.Trouble = e.san(err.Error())
		return nr
	}
	defer func() { node.Quit() }()
	var lastAck *AckRec
	tag := fmt.Sprintf("k=%d", killAt)
	restarted := false
	for i := 0; i < len(p.Ops); i++ {
		op := &p.Ops[i]
		e.curOp = i
		if op.Kind == "app" {
			r := e.appDo(op.Step)
			if err := e.observe("app"); err != nil {
				res.Trouble = err.Error()
				return nr
			}
			e.event("[%s] op%d app %s -> %s", tag, i, op.Step.K, r)
			continue
		}
		if err := e.observe("ls"); err != nil {
			res.Trouble = err.Error()
			return nr
		}
		e.AckStartApp = e.Led.LastApp
		var resp *NodeResp
		if op.Kind == "sleep" {
			resp = node.Do(Op{Kind: "advance", Ms: op.Ms})
			clock += op.Ms
		} else {
			resp = node.Do(*op)
		}
		if err := e.observe("ls"); err != nil {
			res.Trouble = err.Error()
			return nr
		}
		if resp == nil {
			// the node died
			if !node.Killed || restarted {
				res.Trouble = e.san(fmt.Sprintf("node died unexpectedly at op %d (%s): %s", i, op.Kind, tail(node.Stderr(), 1500)))
				return nr
			}
			nr.Killed, nr.KillOp = true, i
			nr.KillDesc = firstLine(node.Stderr())
			res.Probes["kills"]++
			res.FaultsHit["kill:"+killSite(nr.KillDesc)]++
			e.event("[%s] op%d %s -> KILLED (%s)", tag, i, op.Kind, e.san(nr.KillDesc))
			if v := e.postKillChecks(lastAck); v != nil {
				v.Facts["kill_at"] = killAt
				v.Facts["kill_site"] = killSite(nr.KillDesc)
				res.Violation = v
				res.Events = e.Events
				return nr
			}
			if p.Params["torn"] == 1 {
				e.tearTmpFiles()
			}
			// restart: a new process, no manual step
			init2 := &NodeInit{Dir: dir, Cfg: p.Cfg, KillAt: 0, ClockMs: clock, Mode: "replicate"}
			n2, r2, err := StartNode(init2)
			if err == nil && r2 != nil && !r2.Started {
				// the new process came up but litestream refused to start on what
				// the killed one left behind: a manual repair would be needed
				err = fmt.Errorf("%s", r2.Res)
				n2.Quit()
			}
			if err != nil {
				v := e.fail("restart-failed", "after the kill (%s) litestream does not start again: %v", nr.KillDesc, err)
				v.Facts["kill_site"] = killSite(nr.KillDesc)
				res.Violation = v
				res.Events = e.Events
				return nr
			}
			node = n2
			restarted = true
			continue
		}
		if killAt == 0 || !restarted {
			nr.K = resp.FSCount
		}
		e.event("[%s] op%d %s -> %s pos=%d fs=%d", tag, i, op.Kind, resp.Res, resp.Pos, resp.FSCount)
		if resp.Ack {
			if v := e.checkAckNode(i); v != nil {
				v.Facts["kill_at"] = killAt
				v.Facts["after_kill"] = restarted
				res.Violation = v
				res.Events = e.Events
				return nr
			}
			if res.Trouble != "" {
				return nr
			}
			if len(e.Acks) > 0 {
				a := e.Acks[len(e.Acks)-1]
				lastAck = &a
			}
		}
		node.Do(Op{Kind: "advance", Ms: p.Cfg.StepGapMs})
		clock += p.Cfg.StepGapMs
	}
	// after a kill: replication must resume unaided within 3 attempts
	if restarted {
		e.App.Do(&Step{K: "hold_rollback"})
		e.App.Do(&Step{K: "reader_end"})
		acked := false
		var lastRes string
		for a := 0; a < 3 && !acked; a++ {
			e.observe("ls")
			e.AckStartApp = e.Led.LastApp
			resp := node.Do(Op{Kind: "ls_sync_wait"})
			e.observe("ls")
			if resp == nil {
				res.Trouble = "node died during catch-up: " + tail(node.Stderr(), 800)
				return nr
			}
			lastRes = resp.Res
			if resp.Ack {
				acked = true
				if v := e.checkAckNode(len(p.Ops)); v != nil {
					v.Facts["kill_at"] = killAt
					v.Facts["after_kill"] = true
					v.Facts["kill_site"] = killSite(nr.KillDesc)
					res.Violation = v
				}
			}
			node.Do(Op{Kind: "advance", Ms: 1500})
		}
		res.Checks++
		if !acked && res.Violation == nil {
			v := e.fail("no-resume-after-kill", "after the kill (%s) and restart, 3 SyncAndWait attempts all failed without manual intervention; last: %s", nr.KillDesc, lastRes)
			v.Facts["kill_site"] = killSite(nr.KillDesc)
			res.Violation = v
		}
	}
	res.Acks += len(e.Acks)
	res.Ops += len(p.Ops)
	res.Events = append(res.Events, e.Events...)
	return nr
}

func tail(s string, n int) string {
	if len(s) > n {
		return s[len(s)-n:]
	}
	return s
}

func firstLine(s string) string {
	for _, l := range strings.Split(s, "\n") {
		if strings.HasPrefix(l, "KILL before") {
			return l
		}
	}
	return ""
}

// killSite extracts "<op> <basename-class>" from the kill announcement.
func killSite(desc string) string {
	// KILL before fs op 12: rename /path/a.tmp /path/a
	i := strings.Index(desc, ": ")
	if i < 0 {
		return "?"
	}
	f := strings.Fields(desc[i+2:])
	if len(f) == 0 {
		return "?"
	}
	cls := ""
	if len(f) > 1 {
		switch {
		case strings.Contains(f[1], "/replica/"):
			cls = "replica"
		case strings.Contains(f[1], "-litestream/"):
			cls = "meta"
		case strings.Contains(f[1], "restore-") || strings.Contains(f[1], "follower"):
			cls = "restore-output"
		default:
			cls = "other"
		}
	}
	return f[0] + ":" + cls
}

// tearTmpFiles truncates leftover *.tmp files to a prefix: the process may have
// died in the middle of a write.
func (e *Env) tearTmpFiles() {
	filepath.Walk(e.Dir, func(path string, info os.FileInfo, err error) error {
		if err != nil || info.IsDir() || !strings.HasSuffix(path, ".tmp") {
			return nil
		}
		if strings.Contains(path, "scratch") {
			return nil
		}
		os.Truncate(path, info.Size()/2)
		e.Res.Probes["torn_tmp_files"]++
		return nil
	})
}

// postKillChecks: evaluated by the parent right after the node was killed.
func (e *Env) postKillChecks(lastAck *AckRec) *Violation {
	meta := filepath.Join(filepath.Dir(e.DBPath), "."+filepath.Base(e.DBPath)+litestream.MetaDirSuffix)
	if v := e.verifyLTXFiles(meta); v != nil {
		return v
	}
	if v := e.verifyLTXFiles(e.RepDir); v != nil {
		return v
	}
	// restore outputs: absent, or complete and a committed state
	ents, _ := os.ReadDir(e.Dir)
	for _, x := range ents {
		name := x.Name()
		if !strings.HasPrefix(name, "restore-") || !strings.HasSuffix(name, ".db") {
			continue
		}
		img, err := os.ReadFile(filepath.Join(e.Dir, name))
		if err != nil {
			continue
		}
		e.Res.Checks++
		if len(img) == 0 || len(img)%e.Led.PageSize != 0 || (len(e.matchStates(img, 0, len(e.Led.States)-1)) == 0 && !e.logicalMatch(img, 0, len(e.Led.States)-1)) {
			return e.fail("partial-restore-output", "after the kill the restore output %s exists but is not a complete committed state (%d bytes)", name, len(img))
		}
	}
	// everything acknowledged before the kill is still restorable
	if lastAck != nil {
		e.Res.Checks++
		img, err := e.restoreAlone(nil)
		if err != nil {
			return e.fail("acked-not-restorable-after-kill", "a sync was acknowledged before the kill, but the replica can no longer be restored: %v", err)
		}
		hi := len(e.Led.States) - 1
		if len(e.matchStates(img, lastAck.StateLo, hi)) == 0 && !e.logicalMatch(img, lastAck.StateLo, hi) {
			all := e.matchStates(img, 0, hi)
			return e.fail("acked-lost-after-kill", "after the kill the replica restores to ledger states %v, older than the window %d.. acknowledged before the kill (or to no committed state)", all, lastAck.StateLo)
		}
	}
	return nil
}

func init() {
	register(&Prop{ID: "C03", Engine: "NODE", Gen: genC03, Run: runC03, Nontrivial: func(r *Result) bool { return r.Probes["kills"] > 0 }})
}
