package sim

// Shared program generators (swarm configuration, application steps, litestream ops).

var pageSizes = []int{512, 1024, 2048, 4096, 8192, 16384, 32768, 65536}

func genConfig(r *Rng) Config {
	c := Config{}
	c.PageSize = pageSizes[r.Pick([]int{30, 14, 8, 26, 6, 5, 5, 6})]
	c.AutoVacuum = r.Pick([]int{5, 3, 2})
	c.AppAutoCkpt = []int{0, 1, 10, 1000}[r.Pick([]int{3, 2, 2, 5})]
	if r.Chance(0.35) {
		c.AppCachePages = []int{2, 8, 20}[r.Intn(3)]
	}
	c.Tables = r.Range(1, 3)
	c.InitRows = []int{0, 5, 40, 200}[r.Pick([]int{2, 3, 4, 2})]
	c.InitRowSize = []int{10, 100, 600, 3000}[r.Pick([]int{3, 4, 2, 1})]
	if c.PageSize >= 16384 && c.InitRows > 40 {
		c.InitRows = 40
	}
	c.MinCheckpointPageN = []int{1, 2, 5, 20, 50, 1000}[r.Pick([]int{1, 2, 3, 3, 2, 4})]
	c.TruncatePageN = []int{0, 3, 10, 40, 500}[r.Pick([]int{5, 1, 2, 2, 2})]
	c.CheckpointMs = []int64{0, 1000, 60000, 3600000}[r.Pick([]int{2, 3, 4, 1})]
	c.MaxSyncWALBytes = []int64{0, 1, 3000, 20000, 64 << 20}[r.Pick([]int{2, 2, 2, 2, 4})]
	c.MaxSyncLTXFiles = []int{0, 1, 3, 256}[r.Pick([]int{2, 1, 2, 4})]
	nl := r.Range(1, 3)
	iv := []int64{5000, 30000, 300000}
	c.LevelMs = iv[:nl]
	c.SnapshotIntervalMs = []int64{10000, 60000, 24 * 3600 * 1000}[r.Intn(3)]
	c.SnapshotRetentionMs = []int64{20000, 120000, 24 * 3600 * 1000}[r.Intn(3)]
	c.L0RetentionMs = []int64{0, 1000, 10000, 300000}[r.Intn(4)]
	c.RetentionEnabled = r.Chance(0.8)
	c.VerifyCompaction = r.Chance(0.3)
	c.Backend = "file"
	c.StepGapMs = []int64{1, 1000, 1500, 20000}[r.Pick([]int{2, 5, 2, 2})]
	return c
}

func genStmt(r *Rng, cfg *Config) Stmt {
	t := r.Intn(cfg.Tables + 1) // may name a table that does not exist (no-op)
	if t >= 4 {
		t = 3
	}
	switch r.Pick([]int{50, 22, 18, 3, 2, 3, 2}) {
	case 0:
		sz := []int{0, 20, 200, 900, 5000}[r.Pick([]int{1, 4, 4, 2, 1})]
		if cfg.PageSize >= 16384 && r.Chance(0.3) {
			sz = cfg.PageSize + 100
		}
		return Stmt{K: "ins", T: t, Key: r.Intn(300), N: r.Range(1, 30), Sz: sz, Seed: r.Uint64() >> 1}
	case 1:
		return Stmt{K: "upd", T: t, Key: r.Intn(300), N: r.Range(1, 60), Sz: []int{10, 150, 700}[r.Intn(3)], Seed: r.Uint64() >> 1}
	case 2:
		n := r.Range(1, 40)
		if r.Chance(0.25) {
			n = r.Range(100, 400)
		}
		return Stmt{K: "del", T: t, Key: r.Intn(300), N: n}
	case 3:
		return Stmt{K: "ctab", T: r.Intn(4)}
	case 4:
		return Stmt{K: "dtab", T: r.Intn(4)}
	case 5:
		return Stmt{K: "cidx", T: t}
	default:
		return Stmt{K: "didx", T: t}
	}
}

func genTxn(r *Rng, cfg *Config) Step {
	n := r.Range(1, 4)
	st := Step{K: "txn"}
	for i := 0; i < n; i++ {
		st.Stmts = append(st.Stmts, genStmt(r, cfg))
	}
	st.Rollback = r.Chance(0.08)
	return st
}

var ckptModes = []string{"PASSIVE", "FULL", "RESTART", "TRUNCATE"}

// genAppStep draws one application step.
func genAppStep(r *Rng, cfg *Config) Step {
	switch r.Pick([]int{60, 4, 4, 12, 3, 4, 3, 4, 3, 2, 1}) {
	case 0:
		return genTxn(r, cfg)
	case 1:
		return Step{K: "vacuum"}
	case 2:
		return Step{K: "incr_vacuum", N: r.Range(0, 20)}
	case 3:
		return Step{K: "ckpt", Mode: PickOf(r, ckptModes)}
	case 4:
		return Step{K: "conn_cycle"}
	case 5:
		return Step{K: "reader_begin"}
	case 6:
		return Step{K: "reader_end"}
	case 7:
		s := genTxn(r, cfg)
		s.K = "hold_begin"
		s.Rollback = false
		return s
	case 8:
		return Step{K: "hold_commit"}
	case 9:
		return Step{K: "hold_rollback"}
	default:
		s := genTxn(r, cfg)
		s.K = "hold_more"
		return s
	}
}

var interposeSites = []string{
	"phase:ensure_wal", "phase:stat_wal", "phase:verify", "phase:sync_ltx", "phase:sync_page_map",
	"phase:sync_prepare_ltx", "phase:write_ltx_from_wal", "phase:write_ltx_from_db", "phase:close_ltx",
	"phase:rename_ltx", "phase:sync_complete", "phase:checkpoint_if_needed", "phase:checkpoint_lock",
	"phase:checkpoint_copy_before", "phase:checkpoint_exec", "ckpt:read_lock_released", "ckpt:pragma_done",
	"phase:checkpoint_verify_restart", "phase:checkpoint_snapshot_boundary_lock", "phase:checkpoint_snapshot_boundary",
	"replica:before_upload", "client:write", "client:list", "client:open", "snapshot:before_write",
	"db:close_synced", "compact:before_write",
	"sql:begin", "sql:rollback", "sql:insert:lock", "sql:insert:seq", "sql:select:seq", "sql:pragma:wal_checkpoint",
}

// sqlSites are the statement-level scheduling points of litestream's own
// connection (see sqlseam.go).
var sqlSites = []string{"sql:begin", "sql:rollback", "sql:insert:lock", "sql:insert:seq", "sql:select:seq", "sql:pragma:wal_checkpoint"}

// genBusyWindow emits an application write transaction that is left open, then a
// litestream operation during which - right before one of litestream's own SQL
// statements - the application ends that transaction: litestream meets
// SQLITE_BUSY on some statements and success on later ones (the interleavings a
// busy handler's sleep allows).
func genBusyWindow(r *Rng, cfg *Config, lsW []int) []Op {
	hold := genTxn(r, cfg)
	hold.K = "hold_begin"
	hold.Rollback = false
	op := genLSOp(r, cfg, lsW)
	for op.Kind == "sleep" {
		op = genLSOp(r, cfg, lsW)
	}
	if r.Chance(0.4) {
		op = Op{Kind: "ls_ckpt", Mode: ckptModes[r.Pick([]int{5, 2, 2, 4})]}
	}
	end := Step{K: "hold_commit"}
	if r.Chance(0.25) {
		end = Step{K: "hold_rollback"}
	}
	ip := Interpose{Site: PickOf(r, sqlSites), Nth: r.Pick([]int{4, 4, 2, 1}) + 1, Steps: []Step{end}}
	if r.Chance(0.3) {
		ip.Steps = append(ip.Steps, genAppStep(r, cfg))
	}
	op.Interpose = append(op.Interpose, ip)
	return []Op{appOp(hold), op, appOp(Step{K: "hold_commit"})}
}

// genIdleRetention: everything is compacted, the application goes idle for
// longer than the level-0 retention and the retention check fires more than once
// with no new file in between; then the application writes again.
func genIdleRetention(r *Rng, cfg *Config) []Op {
	if len(cfg.LevelMs) == 0 || cfg.L0RetentionMs > 20000 {
		return nil
	}
	ops := []Op{{Kind: "ls_sync_wait"}, {Kind: "sleep", Ms: cfg.LevelMs[0] + 500}, {Kind: "ls_compact", Level: 1}}
	for i := 0; i < r.Range(2, 3); i++ {
		ops = append(ops, Op{Kind: "sleep", Ms: cfg.L0RetentionMs + 1000}, Op{Kind: "ls_l0_retention"})
	}
	ops = append(ops, appOp(genTxn(r, cfg)), Op{Kind: "ls_sync_wait"})
	if r.Chance(0.5) {
		ops = append(ops, appOp(genTxn(r, cfg)), Op{Kind: "ls_sync_wait"})
	}
	return ops
}

// genSnapshotWindow: a snapshot stream is open (litestream skips its own
// checkpoints) while transactions arrive and rounds are acknowledged.
func genSnapshotWindow(r *Rng, cfg *Config, lsW []int) []Op {
	ops := []Op{{Kind: "snap_open"}}
	n := r.Range(2, 12)
	for i := 0; i < n; i++ {
		if r.Chance(0.7) {
			st := genTxn(r, cfg)
			ops = append(ops, appOp(st))
		} else {
			op := genLSOp(r, cfg, lsW)
			ops = append(ops, op)
		}
	}
	ops = append(ops, Op{Kind: "ls_sync_wait"})
	if r.Chance(0.5) {
		ops = append(ops, appOp(genAppStep(r, cfg)), Op{Kind: "ls_sync_wait"})
	}
	ops = append(ops, Op{Kind: "snap_close", N: int64(r.Intn(2))})
	return ops
}

func genInterpose(r *Rng, cfg *Config) Interpose {
	ip := Interpose{Site: PickOf(r, interposeSites), Nth: r.Pick([]int{6, 3, 1}) + 1}
	n := r.Range(1, 3)
	for i := 0; i < n; i++ {
		ip.Steps = append(ip.Steps, genAppStep(r, cfg))
	}
	return ip
}

// genLSOp draws one litestream operation for history-style properties.
func genLSOp(r *Rng, cfg *Config, w []int) Op {
	// order: sync, replica_sync, sync_wait, store_sync, http_sync, ckpt, snapshot, compact, sleep
	var op Op
	switch r.Pick(w) {
	case 0:
		op = Op{Kind: "ls_sync"}
	case 1:
		op = Op{Kind: "ls_replica_sync"}
	case 2:
		op = Op{Kind: "ls_sync_wait"}
	case 3:
		op = Op{Kind: "ls_store_sync"}
	case 4:
		op = Op{Kind: "ls_http_sync"}
	case 5:
		op = Op{Kind: "ls_ckpt", Mode: ckptModes[r.Pick([]int{5, 2, 2, 4})]}
	case 6:
		op = Op{Kind: "ls_snapshot"}
	case 7:
		lv := r.Range(1, len(cfg.LevelMs))
		if r.Chance(0.25) {
			lv = 9
		}
		op = Op{Kind: "ls_compact", Level: lv}
	default:
		return Op{Kind: "sleep", Ms: []int64{10, 1500, 61000, 400000}[r.Intn(4)]}
	}
	return op
}

func appOp(s Step) Op { return Op{Kind: "app", Step: &s} }

// genLockWindow emits a litestream checkpoint during which - while litestream
// has released its read lock around the PRAGMA - the application commits and
// checkpoints: the only window in which another connection can restart or
// truncate the WAL behind litestream's back.
func genLockWindow(r *Rng, cfg *Config) []Op {
	var ops []Op
	if r.Chance(0.6) {
		ops = append(ops, appOp(genTxn(r, cfg)))
	}
	op := Op{Kind: "ls_ckpt", Mode: ckptModes[r.Pick([]int{3, 4, 4, 3})]}
	site := PickOf(r, []string{"ckpt:read_lock_released", "ckpt:pragma_done", "sql:pragma:wal_checkpoint", "sql:begin", "sql:select:seq", "phase:checkpoint_exec", "sql:insert:seq"})
	tx := genTxn(r, cfg)
	tx.Rollback = false
	steps := []Step{tx, {K: "ckpt", Mode: ckptModes[r.Pick([]int{2, 2, 3, 5})]}}
	if r.Chance(0.3) {
		steps = append(steps, genTxn(r, cfg))
	}
	if r.Chance(0.2) {
		steps = steps[1:] // checkpoint only
	}
	op.Interpose = []Interpose{{Site: site, Nth: r.Pick([]int{6, 3, 1}) + 1, Steps: steps}}
	ops = append(ops, op)
	if r.Chance(0.5) {
		ops = append(ops, Op{Kind: "ls_sync_wait"})
	}
	return ops
}

// genFailedCheckpoint emits a litestream checkpoint (or sync that checkpoints)
// whose PRAGMA or bookkeeping statement fails, or whose caller gives up
// (context cancelled) at a statement boundary, followed by the application
// activity that is dangerous if litestream lost its read lock on that path:
// a commit and a checkpoint that resets the WAL.
func genFailedCheckpoint(r *Rng, cfg *Config) []Op {
	var ops []Op
	if r.Chance(0.5) {
		ops = append(ops, appOp(genTxn(r, cfg)))
	}
	op := Op{Kind: "ls_ckpt", Mode: ckptModes[r.Pick([]int{4, 2, 3, 4})]}
	if r.Chance(0.3) {
		op = Op{Kind: PickOf(r, []string{"ls_sync", "ls_sync_wait", "ls_http_sync"})}
	}
	site := PickOf(r, []string{"sql:pragma:wal_checkpoint", "sql:pragma:wal_checkpoint", "sql:begin", "sql:select:seq", "sql:insert:seq", "sql:insert:lock", "sql:rollback", "ckpt:pragma_done", "ckpt:read_lock_released"})
	st := Step{K: "sql_fail"}
	switch r.Pick([]int{4, 2, 4, 4}) {
	case 1:
		st.Mode = "busy"
	case 2:
		st = Step{K: "cancel_ctx"}
	case 3:
		// the disk holding the local level-0 staging directory is full (or fails)
		// for the next staged file: at open, while writing, or at fsync
		st = Step{K: "stage_fail", Mode: PickOf(r, []string{"open", "write", "sync"})}
		site = PickOf(r, []string{"phase:sync_prepare_ltx", "phase:checkpoint_snapshot_boundary", "phase:checkpoint_snapshot_boundary", "phase:checkpoint_copy_before", "sql:insert:lock", "ckpt:pragma_done"})
	}
	op.Interpose = []Interpose{{Site: site, Nth: r.Pick([]int{6, 3, 1}) + 1, Steps: []Step{st}}}
	ops = append(ops, op)
	tx := genTxn(r, cfg)
	tx.Rollback = false
	ops = append(ops, appOp(tx), appOp(Step{K: "ckpt", Mode: ckptModes[r.Pick([]int{1, 2, 3, 5})]}))
	if r.Chance(0.5) {
		ops = append(ops, appOp(genTxn(r, cfg)))
	}
	ops = append(ops, Op{Kind: "ls_sync_wait"})
	return ops
}

// genQueuedOp emits a litestream operation that, right before it takes the
// executor, is overtaken by a complete sync (and upload) of the same instance
// with application commits on either side: what happens when two callers
// queue for the executor.
func genQueuedOp(r *Rng, cfg *Config) []Op {
	ops := []Op{appOp(genTxn(r, cfg))}
	op := Op{Kind: PickOf(r, []string{"ls_ckpt", "ls_ckpt", "ls_sync", "ls_snapshot", "ls_sync_wait"})}
	if op.Kind == "ls_ckpt" {
		op.Mode = ckptModes[r.Pick([]int{4, 2, 2, 3})]
	}
	site := "db:lock_exec"
	if op.Kind == "ls_snapshot" && r.Chance(0.5) {
		site = PickOf(r, []string{"snapshot:position_captured", "snapshot:before_write"})
	}
	t1, t2 := genTxn(r, cfg), genTxn(r, cfg)
	t1.Rollback, t2.Rollback = false, false
	op.Interpose = []Interpose{{Site: site, Nth: 1, Steps: []Step{t1, {K: "ls_nested_sync", N: r.Intn(2)}, t2}}}
	ops = append(ops, op, Op{Kind: "ls_sync_wait"})
	return ops
}

// genBoundaryStageFail: a checkpoint that restarts the WAL and whose boundary
// snapshot cannot be staged locally (disk full / I/O error), followed by
// application writes (which must still work) and an acknowledged sync.
func genBoundaryStageFail(r *Rng, cfg *Config) []Op {
	tx := genTxn(r, cfg)
	tx.Rollback = false
	op := Op{Kind: "ls_ckpt", Mode: PickOf(r, []string{"TRUNCATE", "TRUNCATE", "RESTART", "FULL"})}
	op.Interpose = []Interpose{{Site: "phase:checkpoint_snapshot_boundary", Nth: 1, Steps: []Step{{K: "stage_fail", Mode: PickOf(r, []string{"open", "write", "sync"})}}}}
	t2, t3 := genTxn(r, cfg), genTxn(r, cfg)
	t2.Rollback, t3.Rollback = false, false
	return []Op{appOp(tx), op, appOp(t2), appOp(t3), Op{Kind: "ls_sync_wait"}}
}
