package sim

import (
	"encoding/json"
	"fmt"
	"os"
	"testing"
)

// TestDebugReplay runs the program of a replay file (VERIF_DEBUG_REPLAY=path);
// with VERIF_LOG=1 litestream's log records are printed as they happen.
func TestDebugReplay(t *testing.T) {
	pp := os.Getenv("VERIF_DEBUG_REPLAY")
	if pp == "" {
		t.Skip()
	}
	b, err := os.ReadFile(pp)
	if err != nil {
		t.Fatal(err)
	}
	var rf ReplayFile
	if err := json.Unmarshal(b, &rf); err != nil {
		t.Fatal(err)
	}
	if rf.Property == "" && rf.Program != nil {
		rf.Property = rf.Program.Property
	}
	prop := Props[rf.Property]
	res := prop.Run(t, rf.Program)
	for _, e := range res.Events {
		fmt.Println(e)
	}
	fmt.Println("trouble:", res.Trouble)
	if res.Violation != nil {
		fmt.Println("violation:", res.Violation.Class, res.Violation.Msg)
	}
}

func TestDebugRun(t *testing.T) {
	pp := os.Getenv("VERIF_DEBUG")
	if pp == "" {
		t.Skip()
	}
	var a struct {
		Prop string
		Idx  int
		Seed uint64
		Tier string
	}
	json.Unmarshal([]byte(pp), &a)
	prop := Props[a.Prop]
	seed := RunSeed(a.Seed, prop.ID, a.Idx)
	if a.Tier == "" {
		a.Tier = "quick"
	}
	p := prop.Gen(NewRng(seed), a.Tier, a.Idx)
	p.Seed = seed
	res := prop.Run(t, p)
	for _, e := range res.Events {
		fmt.Println(e)
	}
	fmt.Println("trouble:", res.Trouble)
	if res.Violation != nil {
		fmt.Println("violation:", res.Violation.Class, res.Violation.Msg)
	}
	b, _ := json.Marshal(res.Probes)
	fmt.Println(string(b))
}

// TestDebugC12Cold runs N programs of the cold-cache variant (VERIF_DEBUG_COLD=N)
// and prints what each reached.
func TestDebugC12Cold(t *testing.T) {
	var n int
	fmt.Sscan(os.Getenv("VERIF_DEBUG_COLD"), &n)
	if n == 0 {
		t.Skip()
	}
	prop := Props["C12"]
	classes := map[string]int{}
	for i := 0; i < n; i++ {
		seed := RunSeed(99, "C12", i)
		r := NewRng(seed)
		p := prop.Gen(r, "quick", i)
		if os.Getenv("VERIF_DEBUG_COLD_VARIANT") == "ret" {
			p.Holds = nil
			genC12RetentionVsCompaction(r, p)
		} else if os.Getenv("VERIF_DEBUG_COLD_VARIANT") == "pos" {
			p.Holds = nil
			genC12ColdPos(r, p)
		} else {
			genC12ColdCache(r, p)
		}
		p.Schedule = nil
		for i := 0; i < 4000; i++ {
			p.Schedule = append(p.Schedule, r.Intn(1000))
		}
		p.Seed = seed
		res := prop.Run(t, p)
		c := "ok"
		if res.Violation != nil {
			c = res.Violation.Class
		}
		if res.Trouble != "" {
			c = "trouble:" + res.Trouble
		}
		classes[c]++
		if os.Getenv("VERIF_DEBUG_EVENTS") != "" {
			for _, e := range res.Events {
				fmt.Println(e)
			}
		}
		fmt.Println(i, c, res.Probes)
	}
	fmt.Println(classes)
}

// TestDebugC11Lag runs N programs of the lagging-follower variant (VERIF_DEBUG_LAG=N).
func TestDebugC11Lag(t *testing.T) {
	var n int
	fmt.Sscan(os.Getenv("VERIF_DEBUG_LAG"), &n)
	if n == 0 {
		t.Skip()
	}
	prop := Props["C11"]
	classes := map[string]int{}
	for i := 0; i < n; i++ {
		seed := RunSeed(99, "C11", i)
		r := NewRng(seed)
		p := &Program{Property: "C11", Engine: "HIST"}
		p.Cfg = genConfig(r)
		p.Cfg.StepGapMs = 1000
		genC11LaggingFollower(r, p)
		p.Seed = seed
		res := prop.Run(t, p)
		c := "ok"
		if res.Violation != nil {
			c = res.Violation.Class
		}
		if res.Trouble != "" {
			c = "trouble:" + res.Trouble
		}
		classes[c]++
		if os.Getenv("VERIF_DEBUG_EVENTS") != "" {
			for _, e := range res.Events {
				fmt.Println(e)
			}
		}
		fmt.Println(i, c, res.Probes["rule:R4:sidecar"], res.Probes["follow_stops"])
	}
	fmt.Println(classes)
}
