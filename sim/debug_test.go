package sim

import (
	"encoding/json"
	"fmt"
	"os"
	"testing"
)

func TestDebugRun(t *testing.T) {
	pp := os.Getenv("VERIF_DEBUG")
	if pp == "" {
		t.Skip()
	}
	var a struct {
		Prop string
		Idx  int
		Seed uint64
		Tier string
	}
	json.Unmarshal([]byte(pp), &a)
	prop := Props[a.Prop]
	seed := RunSeed(a.Seed, prop.ID, a.Idx)
	if a.Tier == "" {
		a.Tier = "quick"
	}
	p := prop.Gen(NewRng(seed), a.Tier, a.Idx)
	p.Seed = seed
	res := prop.Run(t, p)
	for _, e := range res.Events {
		fmt.Println(e)
	}
	fmt.Println("trouble:", res.Trouble)
	if res.Violation != nil {
		fmt.Println("violation:", res.Violation.Class, res.Violation.Msg)
	}
	b, _ := json.Marshal(res.Probes)
	fmt.Println(string(b))
}
