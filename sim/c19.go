package sim

import (
	"bytes"
	"context"
	"fmt"
	"os"
	"path/filepath"
	"sort"
	"time"

	"github.com/benbjohnson/litestream"
	"github.com/benbjohnson/litestream/file"
	"github.com/pierrec/lz4/v4"
)

// C19 — legacy 0.3.x backups restore to the right state or fail.
//
// The harness emulates the 0.3.x writer: from a real application history it cuts
// every WAL generation ("index") into LZ4 segments at seed-chosen frame
// boundaries, writes LZ4 snapshots at several indices, in one or two
// generations, and stamps file times from a simulated clock. Restore (real
// code: RestoreV3, format arbitration, file client's legacy listing) then runs
// on the intact layout, on the layout with one segment removed, and for
// timestamps at and around every file time. Object-loss fault injection with a
// differential oracle (the WAL ledger); no schedule dimension.

type v3seg struct {
	Gen     string
	Index   int
	Off     int64
	End     int64
	Time    time.Time
	StateAt int // ledger state at the last commit that ends at or before End (cumulative over indices)
	Path    string
}

type v3snap struct {
	Gen     string
	Index   int
	Time    time.Time
	StateAt int
}

func genC19(r *Rng, tier string, idx int) *Program {
	p := &Program{Property: "C19", Engine: "HIST"}
	p.Cfg = genConfig(r)
	if p.Cfg.PageSize > 8192 {
		p.Cfg.PageSize = []int{512, 1024, 4096}[r.Intn(3)]
	}
	p.Cfg.AppAutoCkpt = 0
	p.Cfg.InitRows = []int{0, 5, 40}[r.Intn(3)]
	p.Params = map[string]int64{
		"gens":      int64(r.Range(1, 3)),
		"indices":   int64(r.Range(1, 4)),
		"txns":      int64(r.Range(1, 4)),
		"layout":    int64(r.Uint64() >> 2),
		"equal_len": int64(r.Intn(2)), // make index k's first cut equal to index k-1's length (the coincidence a missing first segment needs)
		"ltx":       int64(r.Intn(3)),  // 0 none, 1 LTX replica older than legacy, 2 LTX replica newer
		"cases":     12,
	}
	if tier == "thorough" {
		p.Params["cases"] = 0 // every segment, every timestamp
	}
	return p
}

func lz4Bytes(b []byte) []byte {
	var buf bytes.Buffer
	w := lz4.NewWriter(&buf)
	w.Write(b)
	w.Close()
	return buf.Bytes()
}

func runC19(t testingT, p *Program) *Result {
	return RunHIST(t, p, func(e *Env) {
		e.AtEnd = func(e *Env) *Violation { return e.runC19() }
	})
}

func (e *Env) runC19() *Violation {
	p := e.Prog
	r := NewRng(uint64(p.Params["layout"]))
	ctx := context.Background()
	// litestream (started by the engine) must not touch the source while the
	// legacy writer is emulated: stop it; the LTX replica (if any) is made later.
	e.stopLS(ctx)
	root := filepath.Join(e.Dir, "legacy-replica")
	os.RemoveAll(root)
	base := time.Now().Add(-48 * time.Hour) // legacy files are older than anything litestream writes later ...
	if p.Params["ltx"] == 1 {
		base = time.Now().Add(48 * time.Hour) // ... or newer
	}
	clock := base
	tick := func() time.Time { clock = clock.Add(time.Second); return clock }
	var segs []v3seg
	var snaps []v3snap
	walLen := map[string]int64{} // true length of every WAL index
	ps := e.Led.PageSize
	fs := int64(24 + ps)
	prevLen := int64(0)
	for g := 0; g < int(p.Params["gens"]); g++ {
		// generation ids are random in the real writer: their lexical order (the
		// listing order) is independent of their age
		gen := fmt.Sprintf("%016x", r.Uint64())
		e.App.Do(&Step{K: "hold_rollback"})
		e.App.Do(&Step{K: "reader_end"})
		e.App.Do(&Step{K: "ckpt", Mode: "TRUNCATE"})
		e.observe("app")
		for idx := 0; idx < int(p.Params["indices"]); idx++ {
			if idx == 0 || r.Chance(0.4) {
				img, err := os.ReadFile(e.DBPath)
				if err != nil {
					e.Res.Trouble = err.Error()
					return nil
				}
				sp := litestream.SnapshotPathV3(root, gen, idx)
				os.MkdirAll(filepath.Dir(sp), 0o755)
				os.WriteFile(sp, lz4Bytes(img), 0o644)
				tm := tick()
				os.Chtimes(sp, tm, tm)
				snaps = append(snaps, v3snap{Gen: gen, Index: idx, Time: tm, StateAt: len(e.Led.States) - 1})
			}
			// transactions of this index; remember (wal size, ledger state) after each commit
			type mark struct {
				end   int64
				state int
			}
			marks := []mark{{32, len(e.Led.States) - 1}}
			for k := 0; k < int(p.Params["txns"]); k++ {
				st := genTxn(r, &p.Cfg)
				st.Rollback = false
				// every index must hold at least one committed frame
				st.Stmts = append([]Stmt{{K: "ctab", T: 0}, {K: "ins", T: 0, Key: 500 + g*50 + idx*10 + k, N: 1, Sz: 30, Seed: uint64(idx*7 + k + 1)}}, st.Stmts...)
				e.appDo(&st)
				e.observe("app")
				if fi, err := os.Stat(e.DBPath + "-wal"); err == nil {
					marks = append(marks, mark{fi.Size(), len(e.Led.States) - 1})
				}
			}
			wal, _ := os.ReadFile(e.DBPath + "-wal")
			if len(wal) <= 32 {
				e.App.Do(&Step{K: "ckpt", Mode: "TRUNCATE"})
				continue
			}
			nf := (int64(len(wal)) - 32) / fs
			// cut points on frame boundaries
			cuts := []int64{0}
			if p.Params["equal_len"] == 1 && prevLen > 32 && prevLen < int64(len(wal)) && (prevLen-32)%fs == 0 {
				cuts = append(cuts, prevLen)
			}
			for f := int64(1); f < nf; f++ {
				if r.Chance(0.3) {
					cuts = append(cuts, 32+f*fs)
				}
			}
			cuts = append(cuts, int64(len(wal)))
			sort.Slice(cuts, func(i, j int) bool { return cuts[i] < cuts[j] })
			var uc []int64
			for i, c := range cuts {
				if i == 0 || c != cuts[i-1] {
					uc = append(uc, c)
				}
			}
			for i := 0; i+1 < len(uc); i++ {
				off, end := uc[i], uc[i+1]
				sp := litestream.WALSegmentPathV3(root, gen, idx, off)
				os.MkdirAll(filepath.Dir(sp), 0o755)
				os.WriteFile(sp, lz4Bytes(wal[off:end]), 0o644)
				tm := tick()
				os.Chtimes(sp, tm, tm)
				state := marks[0].state
				for _, m := range marks {
					if m.end <= end {
						state = m.state
					}
				}
				segs = append(segs, v3seg{Gen: gen, Index: idx, Off: off, End: end, Time: tm, StateAt: state, Path: sp})
			}
			prevLen = int64(len(wal))
			walLen[fmt.Sprintf("%s/%d", gen, idx)] = int64(len(wal))
			e.App.Do(&Step{K: "ckpt", Mode: "TRUNCATE"})
			e.observe("app")
		}
	}
	e.Res.Probes["v3_segments"] = len(segs)
	e.Res.Probes["v3_snapshots"] = len(snaps)
	if len(snaps) == 0 {
		return nil
	}
	legacyFinal := len(e.Led.States) - 1
	// optional current-format replica in the same location
	ltxState := -1
	var ltxFirst, ltxLast time.Time // times of the current-format files (if any)
	if p.Params["ltx"] != 0 {
		st := genTxn(r, &p.Cfg)
		st.Rollback = false
		e.appDo(&st)
		e.observe("app")
		e.RepDir = root
		if err := e.startLS(); err == nil {
			if err := e.LS.DB.SyncAndWait(ctx); err == nil {
				e.observe("ls")
				ltxState = e.Led.LastApp
				e.Res.Probes["ltx_replica_present"]++
				for _, fi := range e.FS.AllListing() {
					if ltxFirst.IsZero() || fi.CreatedAt.Before(ltxFirst) {
						ltxFirst = fi.CreatedAt
					}
					if fi.CreatedAt.After(ltxLast) {
						ltxLast = fi.CreatedAt
					}
				}
			}
			e.stopLS(ctx)
		}
	}
	_ = legacyFinal
	out := filepath.Join(e.Scratch, "v3-out.db")
	clean := func() {
		for _, s := range []string{"", ".tmp", "-wal", "-shm", ".tmp-wal", ".tmp-shm"} {
			os.Remove(out + s)
		}
	}
	restore := func(T time.Time) ([]byte, error) {
		clean()
		rep := litestream.NewReplicaWithClient(nil, file.NewReplicaClient(root))
		opt := litestream.NewRestoreOptions()
		opt.OutputPath = out
		opt.Timestamp = T
		if err := rep.Restore(ctx, opt); err != nil {
			return nil, err
		}
		img, err := os.ReadFile(out)
		clean()
		return img, err
	}
	// expected: (state index, error expected) for a given timestamp and removed segment
	expect := func(T time.Time, removed int) (int, bool) {
		// newest eligible snapshot across generations
		var best *v3snap
		for i := range snaps {
			s := &snaps[i]
			if !T.IsZero() && s.Time.After(T) {
				continue
			}
			if best == nil || s.Time.After(best.Time) {
				best = s
			}
		}
		if best == nil {
			return -1, true
		}
		state := best.StateAt
		wantIdx, wantOff := best.Index, int64(0)
		for i := range segs {
			sg := &segs[i]
			if sg.Gen != best.Gen || sg.Index < best.Index || i == removed {
				continue
			}
			if !T.IsZero() && sg.Time.After(T) {
				continue
			}
			if sg.Index == wantIdx && sg.Off == wantOff {
				state = sg.StateAt
				wantOff = sg.End
			} else if sg.Index == wantIdx+1 && sg.Off == 0 && wantOff > 0 && wantOff == walLen[fmt.Sprintf("%s/%d", sg.Gen, wantIdx)] {
				wantIdx++
				state = sg.StateAt
				wantOff = sg.End
			} else {
				return -1, true // a needed segment or index is missing (also: the tail of an index that has a successor)
			}
		}
		return state, false
	}
	removalKind := func(i int) string {
		if i < 0 {
			return "none"
		}
		sg := segs[i]
		lastOfIndex, hasSuccessor := true, false
		for j := range segs {
			o := segs[j]
			if o.Gen != sg.Gen {
				continue
			}
			if o.Index == sg.Index && o.Off > sg.Off {
				lastOfIndex = false
			}
			if o.Index > sg.Index {
				hasSuccessor = true
			}
		}
		switch {
		case sg.Off == 0 && (!lastOfIndex || hasSuccessor):
			return "first-of-index"
		case !lastOfIndex:
			return "middle"
		case hasSuccessor:
			return "tail-of-index-with-successor"
		}
		return "tail-of-chain"
	}
	check := func(desc string, T time.Time, removed int) *Violation {
		e.Res.Checks++
		img, err := restore(T)
		want, wantErr := expect(T, removed)
		// format arbitration
		useLTX := false
		if ltxState >= 0 && T.IsZero() {
			useLTX = p.Params["ltx"] == 2 // litestream's files are newer than the legacy ones
		}
		if useLTX {
			want, wantErr = ltxState, false
		} else if ltxState >= 0 && !T.IsZero() {
			// Both formats present and a timestamp given: only the unambiguous
			// cases are judged - exactly one format holds a backup that is not
			// newer than T, so that one must be used.
			v3Eligible := false
			for i := range snaps {
				if !snaps[i].Time.After(T) {
					v3Eligible = true
				}
			}
			ltxEligible := !ltxFirst.IsZero() && ltxFirst.Before(T)
			switch {
			case v3Eligible && !ltxEligible:
				// legacy expectation (want, wantErr) stands
				e.Res.Probes["v3_arbitration_only_legacy_eligible"]++
			case !v3Eligible && ltxEligible && T.After(ltxLast):
				want, wantErr, useLTX = ltxState, false, true
				e.Res.Probes["v3_arbitration_only_ltx_eligible"]++
			default:
				return nil // both (or neither) eligible: which one is "more recent" is not modelled
			}
		}
		if wantErr {
			if err == nil {
				m := e.matchStates(img, 0, len(e.Led.States)-1)
				v := e.fail("v3-restore-should-fail", "%s: a needed WAL segment or index is missing, yet restore succeeded (result equals ledger states %v)", desc, m)
				v.Facts["removal"] = removalKind(removed)
				return v
			}
			e.Res.Probes["v3_expected_errors"]++
			return nil
		}
		if err != nil {
			v := e.fail("v3-restore-error", "%s: restore failed although every needed file is present: %v", desc, err)
			v.Facts["removal"] = removalKind(removed)
			return v
		}
		lo := want
		hi := want
		if useLTX {
			hi = len(e.Led.States) - 1
		}
		if len(e.matchStates(img, lo, hi)) == 0 {
			m := e.matchStates(img, 0, len(e.Led.States)-1)
			v := e.fail("v3-restore-wrong-state", "%s: restored database equals ledger states %v; expected state %d (end of the last contiguous eligible segment)", desc, m, want)
			v.Facts["removal"] = removalKind(removed)
			return v
		}
		e.Res.Probes["v3_restores_ok"]++
		return nil
	}
	if v := check("intact layout, latest", time.Time{}, -1); v != nil {
		return v
	}
	limit := int(p.Params["cases"])
	// one segment removed
	order := r.Perm(len(segs))
	n := 0
	for _, i := range order {
		if limit > 0 && n >= limit/2 {
			break
		}
		n++
		sg := segs[i]
		b, err := os.ReadFile(sg.Path)
		if err != nil {
			continue
		}
		os.Remove(sg.Path)
		v := check(fmt.Sprintf("segment %s/%08x_%08x removed", sg.Gen[:4], sg.Index, sg.Off), time.Time{}, i)
		os.WriteFile(sg.Path, b, 0o644)
		os.Chtimes(sg.Path, sg.Time, sg.Time)
		e.Res.Probes["v3_removed_cases"]++
		if v != nil {
			return v
		}
	}
	// timestamps at and around every file time
	var times []time.Time
	for _, s := range snaps {
		times = append(times, s.Time.Add(-time.Millisecond), s.Time, s.Time.Add(time.Millisecond))
	}
	for _, s := range segs {
		times = append(times, s.Time.Add(-time.Millisecond), s.Time, s.Time.Add(500*time.Millisecond))
	}
	if ltxState >= 0 {
		// format arbitration with a timestamp: just after the current-format
		// files, and an hour before / after everything legacy
		times = append(times, ltxLast.Add(time.Second), base.Add(-time.Hour), clock.Add(time.Hour))
	}
	order = r.Perm(len(times))
	n = 0
	for _, i := range order {
		if limit > 0 && n >= limit/2 {
			break
		}
		n++
		e.Res.Probes["v3_timestamp_cases"]++
		if v := check(fmt.Sprintf("timestamp %s", times[i].Format(time.RFC3339Nano)), times[i], -1); v != nil {
			return v
		}
	}
	return nil
}

func init() {
	register(&Prop{ID: "C19", Engine: "HIST", Gen: genC19, Run: runC19, Nontrivial: func(r *Result) bool {
		return r.Probes["v3_segments"] >= 2 && r.Probes["v3_restores_ok"] >= 1
	}})
}
