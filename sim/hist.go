package sim

import (
	"bytes"
	"context"
	"database/sql"
	"encoding/json"
	"fmt"
	"io"
	"log/slog"
	"net/http"
	"net/http/httptest"
	"os"
	"path/filepath"
	"regexp"
	"runtime"
	"sort"
	"strconv"
	"strings"
	"sync"
	"sync/atomic"
	"syscall"
	"testing/synctest"
	"time"

	"github.com/benbjohnson/litestream"
	"github.com/benbjohnson/litestream/file"
	"github.com/benbjohnson/litestream/verifhook"
	"github.com/superfly/ltx"
)

// ---------------------------------------------------------------------------
// log probe handler: counts log records by message (+reason); never reads a
// clock, never draws randomness.

type probeHandler struct {
	mu     *sync.Mutex
	counts map[string]int
	attrs  []slog.Attr
}

var debugLog = os.Getenv("VERIF_LOG") != ""

func newProbeHandler() *probeHandler {
	return &probeHandler{mu: &sync.Mutex{}, counts: map[string]int{}}
}
func (h *probeHandler) Enabled(_ context.Context, l slog.Level) bool { return l >= slog.LevelDebug }
func (h *probeHandler) Handle(_ context.Context, r slog.Record) error {
	key := r.Message
	r.Attrs(func(a slog.Attr) bool {
		if a.Key == "reason" {
			key += "|" + a.Value.String()
		}
		return true
	})
	h.mu.Lock()
	h.counts[key]++
	h.mu.Unlock()
	if debugLog {
		line := r.Level.String() + " " + r.Message
		r.Attrs(func(a slog.Attr) bool { line += " " + a.Key + "=" + a.Value.String(); return true })
		fmt.Fprintln(os.Stderr, "    LS:", line)
	}
	return nil
}
func (h *probeHandler) WithAttrs(a []slog.Attr) slog.Handler { return h }
func (h *probeHandler) WithGroup(string) slog.Handler        { return h }

// ---------------------------------------------------------------------------

// LSInst is one running litestream instance (what a process would hold).
type LSInst struct {
	Store  *litestream.Store
	DB     *litestream.DB
	Server *litestream.Server
	Client *file.ReplicaClient
	Levels litestream.CompactionLevels
}

// Env is the environment of one HIST run.
type Env struct {
	Prog    *Program
	Dir     string
	DBPath  string
	RepDir  string
	Scratch string

	App *App
	Led *Ledger
	FS  *FaultStore
	LS  *LSInst // nil when litestream is down

	Res    *Result
	Events []string
	Probe  *probeHandler

	curOp     int
	curOpRef  *Op
	siteCount map[string]int
	mainGID   uint64
	inHook    bool
	// WrapClient, if set, wraps the replica client handed to litestream (CONC:
	// scheduling points before and after every remote call)
	WrapClient func(litestream.ReplicaClient) litestream.ReplicaClient
	opCancel   context.CancelFunc
	// local staging fault armed by the harness step stage_fail ("open", "write", "sync")
	stageFault    string
	stageFaultsOn bool
	lastMtime     time.Time
	restoreN      int
	start         time.Time

	AckStartApp int // LastApp index at the start of the current op
	Acks        []AckRec
	Viol        *Violation
	SitesSeen   map[string]int

	// property hooks
	OnAck           func(e *Env, opIdx int) *Violation
	AfterOp         func(e *Env, opIdx int, op *Op, res string) *Violation
	AtEnd           func(e *Env) *Violation
	OnClientEnd     func(e *Env, kind string, idx int, err error) *Violation
	StrictLedger    bool
	saved           [][]byte      // database images saved by save_copy steps
	minSnapshotTXID ltx.TXID      // last value returned by DB.EnforceSnapshotRetention
	snapRd          io.ReadCloser // snapshot reader that stays open across operations (snap_open .. snap_close)
	AppTrace        []Step        // every application step executed, in order
	Cleanup         []func()      // run at the end of the run inside the bubble (stop helper goroutines)
	AppTraceRes     []bool        // whether it took effect (result ok)
}

type AckRec struct {
	Op       int
	TXID     ltx.TXID
	StateLo  int // admissible window [StateLo, StateHi]
	StateHi  int
	Restored int // state index the restore matched (-1 unknown)
	SimTime  time.Time
}

func goid() uint64 {
	var buf [64]byte
	n := runtime.Stack(buf[:], false)
	// "goroutine 123 ["
	s := string(buf[:n])
	s = strings.TrimPrefix(s, "goroutine ")
	if i := strings.IndexByte(s, ' '); i > 0 {
		id, _ := strconv.ParseUint(s[:i], 10, 64)
		return id
	}
	return 0
}

// san removes what differs between executions of the same program from a log
// line: the scratch directory and WAL salts (SQLite draws them at random).
func (e *Env) san(s string) string {
	s = strings.ReplaceAll(s, e.Dir, "$D")
	if strings.Contains(s, "salt") {
		s = saltRE.ReplaceAllString(s, "($$salt)")
	}
	return s
}

var saltRE = regexp.MustCompile(`\([0-9a-f]{1,8},[0-9a-f]{1,8}\)`)

func (e *Env) event(format string, args ...any) {
	if len(e.Events) < 5000 {
		e.Events = append(e.Events, e.san(fmt.Sprintf(format, args...)))
	}
}

func (e *Env) fail(class, format string, args ...any) *Violation {
	v := &Violation{Property: e.Prog.Property, Class: class, Msg: e.san(fmt.Sprintf(format, args...)), OpIndex: e.curOp, Facts: map[string]any{}}
	// decisive run facts, used by known-finding signatures (evaluated on the
	// minimised program, so only what the violation needs survives)
	v.Facts["after_runtime_reset"] = e.Res.Probes["reset_since_restart"] > 0
	v.Facts["after_restart"] = e.Res.Probes["restart"] > 0
	v.Facts["meta_lost_higher_level_ahead"] = e.Res.Probes["meta_lost_with_higher_level_ahead"] > 0
	v.Facts["after_stop_start"] = e.Res.Probes["stop_start"] > 0
	v.Facts["chunked_sync"] = e.Prog.Cfg.MaxSyncWALBytes > 0
	v.Facts["min_ckpt"] = e.Prog.Cfg.MinCheckpointPageN
	return v
}

type troubleErr struct{ msg string }

func (t *troubleErr) Error() string { return t.msg }

func trouble(format string, args ...any) error { return &troubleErr{fmt.Sprintf(format, args...)} }

var runCounter atomic.Int64

// RunHIST executes a program in the HIST engine inside a synctest bubble.
func RunHIST(t testingT, p *Program, hooks func(e *Env)) (res *Result) {
	res = &Result{Seed: p.Seed, Probes: map[string]int{}, FaultsHit: map[string]int{}}
	wall := time.Now()
	base := os.Getenv("VERIF_TMP")
	if base == "" {
		base = "/dev/shm"
	}
	dir := filepath.Join(base, fmt.Sprintf("verif-%d-%d", os.Getpid(), runCounter.Add(1)))
	_ = os.RemoveAll(dir)
	if err := os.MkdirAll(dir, 0o755); err != nil {
		res.Trouble = err.Error()
		return res
	}
	defer os.RemoveAll(dir)

	e := &Env{stageFaultsOn: true, Prog: p, Dir: dir, DBPath: filepath.Join(dir, "db"), RepDir: filepath.Join(dir, "replica"),
		Scratch: filepath.Join(dir, "scratch"), Res: res, siteCount: map[string]int{}, SitesSeen: map[string]int{}}
	_ = os.MkdirAll(e.Scratch, 0o755)
	e.Probe = newProbeHandler()
	if hooks != nil {
		hooks(e)
	}

	prevLogger := slog.Default()
	slog.SetDefault(slog.New(e.Probe))
	defer slog.SetDefault(prevLogger)

	done := make(chan struct{})
	var panicked any
	go func() {
		defer close(done)
		defer func() {
			if os.Getenv("VERIF_NORECOVER") != "" {
				return
			}
			if r := recover(); r != nil {
				panicked = r
			}
		}()
		bubble(t, func() { e.run() })
	}()
	<-done
	if panicked != nil {
		msg := fmt.Sprint(panicked)
		if len(msg) > 2000 {
			msg = msg[:2000]
		}
		if e.Viol == nil && res.Trouble == "" {
			res.Trouble = "panic: " + e.san(msg)
		}
	}
	verifhook.YieldHook = nil
	verifhook.FSHook = nil

	res.Violation = e.Viol
	res.Events = e.Events
	res.Ops = e.curOp
	res.Acks = len(e.Acks)
	for k, v := range e.Probe.counts {
		res.Probes["log:"+k] = v
	}
	for k, v := range e.SitesSeen {
		res.Probes["site:"+k] = v
	}
	if e.FS != nil {
		for k, v := range e.FS.Hit {
			res.FaultsHit[k] = v
		}
		for k, v := range e.FS.Kinds {
			res.Probes["client:"+k] = v
		}
	}
	if e.Led != nil {
		res.Probes["ledger:states"] = len(e.Led.States)
		res.Probes["ledger:wal_generations"] = e.Led.Generations
		res.Probes["ledger:gaps"] = e.Led.Gaps
	}
	if e.App != nil {
		res.Probes["app:commits"] = e.App.Commits
		res.Probes["app:busy"] = e.App.Busy
	}
	res.WallMs = time.Since(wall).Milliseconds()
	return res
}

// testingT is the subset of *testing.T the engine needs.
type testingT interface {
	Helper()
}

func (e *Env) run() {
	e.runOps()
	// decisive fact for finding F7, computed while the replica still exists: the
	// restore plan for the latest state starts with a snapshot that is newer than
	// the TXID it advertises because it copied database-file pages of later commits
	if v := e.Viol; v != nil && e.FS != nil && e.Led != nil {
		if _, ok := v.Facts["snapshot_db_file_ahead"]; !ok {
			switch v.Class {
			case "ack-restore-mismatch", "replica-inconsistent", "latest-regressed", "restore-txid-mismatch":
				saved := e.Viol
				if c, cv := e.buildChain(); cv == nil && c != nil && c.N > 0 {
					v.Facts["snapshot_db_file_ahead"] = e.planSnapshotAhead(c, time.Time{})
				}
				e.Viol = saved
			}
		}
	}
}

func (e *Env) runOps() {
	e.start = time.Now()
	e.mainGID = goid()
	defer func() {
		e.Res.SimMs = time.Since(e.start).Milliseconds()
	}()
	cfg := &e.Prog.Cfg
	app, err := CreateAppDB(e.DBPath, cfg, e.Prog.Seed)
	if err != nil {
		e.Res.Trouble = "create app db: " + err.Error()
		return
	}
	e.App = app
	defer func() { e.App.Close() }()
	led, err := NewLedger(e.DBPath)
	if err != nil {
		e.Res.Trouble = "ledger: " + err.Error()
		return
	}
	e.Led = led
	e.FS = NewFaultStore(nil, e.Prog.Faults)
	e.FS.SnapshotSource = func() *State {
		img, err := os.ReadFile(e.DBPath)
		if err != nil || e.Led.PageSize == 0 {
			return nil
		}
		return StateFromImage(img, e.Led.PageSize)
	}
	e.FS.BeforeCall = func(kind string, idx int) {
		if goid() == e.mainGID {
			synctest.Wait()
			e.yield("client:" + kind)
		}
	}
	e.FS.AfterCall = func(kind string, idx int, err error) {
		if e.OnClientEnd != nil && e.Viol == nil && goid() == e.mainGID {
			if v := e.OnClientEnd(e, kind, idx, err); v != nil {
				e.Viol = v
			}
		}
	}
	installSQLSeam()
	sqlFault, sqlFaultsOn = nil, true
	defer func() { sqlFaultsOn = false }()
	verifhook.YieldHook = func(site string) {
		if goid() != e.mainGID {
			return
		}
		e.yield(site)
	}
	defer func() {
		verifhook.YieldHook = nil
		for _, f := range e.Cleanup {
			f()
		}
		if e.LS != nil {
			e.stopLS(context.Background())
		}
		// helper goroutines of the code under test may still sit in a back-off
		// timer (e.g. a compaction whose upload failed while a download retries);
		// let the fake clock run so that they finish before the bubble ends
		time.Sleep(10 * time.Minute)
		synctest.Wait()
	}()

	e.restamp()
	if err := e.startLS(); err != nil {
		e.Res.Trouble = "start litestream: " + err.Error()
		return
	}
	time.Sleep(time.Duration(max64(cfg.StepGapMs, 1)) * time.Millisecond)

	for i := range e.Prog.Ops {
		op := &e.Prog.Ops[i]
		e.curOp = i
		e.curOpRef = op
		for k := range e.siteCount {
			delete(e.siteCount, k)
		}
		if err := e.observe("ls"); err != nil {
			e.Res.Trouble = err.Error()
			return
		}
		e.AckStartApp = e.Led.LastApp
		res, ack := e.execOp(op)
		e.curOpRef = nil
		tag := "ls"
		if strings.HasPrefix(op.Kind, "app") {
			tag = "app"
		}
		if err := e.observe(tag); err != nil {
			e.Res.Trouble = err.Error()
			return
		}
		e.restamp()
		pos := ""
		if e.LS != nil {
			if p, err := e.LS.DB.Pos(); err == nil {
				pos = fmt.Sprintf(" pos=%d", p.TXID)
			}
		}
		e.event("op%d %s -> %s states=%d%s", i, op.Kind, res, len(e.Led.States), pos)
		if e.Res.Trouble != "" {
			return
		}
		if e.Viol == nil && ack && e.OnAck != nil {
			e.Viol = e.OnAck(e, i)
		}
		if e.Viol == nil && e.AfterOp != nil {
			e.Viol = e.AfterOp(e, i, op, res)
		}
		if e.Viol != nil || e.Res.Trouble != "" {
			e.curOp = i + 1
			return
		}
		time.Sleep(time.Duration(max64(cfg.StepGapMs, 1)) * time.Millisecond)
	}
	e.curOp = len(e.Prog.Ops)
	if e.AtEnd != nil && e.Viol == nil {
		e.Viol = e.AtEnd(e)
	}
}

func max64(a, b int64) int64 {
	if a > b {
		return a
	}
	return b
}

// restamp emulates a file system on the simulated clock for the source
// database file: if the file was modified since the last stamp, its mtime
// becomes the simulated "now".
func (e *Env) restamp() {
	fi, err := os.Stat(e.DBPath)
	if err != nil {
		return
	}
	if !fi.ModTime().Equal(e.lastMtime) {
		now := time.Now()
		_ = os.Chtimes(e.DBPath, now, now)
		if fi2, err := os.Stat(e.DBPath); err == nil {
			e.lastMtime = fi2.ModTime()
		}
	}
}

func (e *Env) observe(tag string) error {
	if e.Led == nil {
		return nil
	}
	if _, err := e.Led.Observe(tag); err != nil {
		return trouble("ledger observe: %v", err)
	}
	return nil
}

// yield is called (on the main goroutine only) at every yield site.
func (e *Env) yield(site string) {
	if e.inHook || e.Led == nil {
		return
	}
	e.inHook = true
	defer func() { e.inHook = false }()
	e.SitesSeen[site]++
	if err := e.observe("ls"); err != nil && e.Res.Trouble == "" {
		e.Res.Trouble = err.Error()
	}
	op := e.curOpRef
	if op == nil || len(op.Interpose) == 0 {
		return
	}
	e.siteCount[site]++
	n := e.siteCount[site]
	for k := range op.Interpose {
		ip := &op.Interpose[k]
		if ip.Site == site && ip.Nth == n {
			for j := range ip.Steps {
				var r string
				if hs, ok := harnessSteps[ip.Steps[j].K]; ok {
					r = hs(e, &ip.Steps[j]) // a step of another simulated party (e.g. a VFS reader)
				} else {
					r = e.appDo(&ip.Steps[j])
				}
				e.event("  @%s#%d app %s -> %s", site, n, ip.Steps[j].K, r)
				if err := e.observe("app"); err != nil && e.Res.Trouble == "" {
					e.Res.Trouble = err.Error()
				}
				e.restamp()
			}
			e.Res.Probes["interposed"]++
		}
	}
}

func (e *Env) levels() litestream.CompactionLevels {
	lv := litestream.CompactionLevels{{Level: 0}}
	for i, ms := range e.Prog.Cfg.LevelMs {
		lv = append(lv, &litestream.CompactionLevel{Level: i + 1, Interval: time.Duration(ms) * time.Millisecond})
	}
	return lv
}

// newDB builds a litestream DB object configured from the program.
func (e *Env) newDB() (*litestream.DB, *file.ReplicaClient) {
	cfg := &e.Prog.Cfg
	db := litestream.NewDB(e.DBPath)
	db.MonitorInterval = 0
	db.BusyTimeout = 0
	if cfg.MinCheckpointPageN > 0 {
		db.MinCheckpointPageN = cfg.MinCheckpointPageN
	}
	db.TruncatePageN = cfg.TruncatePageN
	db.CheckpointInterval = time.Duration(cfg.CheckpointMs) * time.Millisecond
	db.MaxSyncWALBytes = cfg.MaxSyncWALBytes
	client := file.NewReplicaClient(e.RepDir)
	e.FS.Inner = client
	var rc litestream.ReplicaClient = e.FS
	if e.WrapClient != nil {
		rc = e.WrapClient(rc)
	}
	r := litestream.NewReplicaWithClient(db, rc)
	client.Replica = r
	r.MonitorEnabled = false
	r.MaxSyncLTXFiles = cfg.MaxSyncLTXFiles
	db.Replica = r
	if e.stageFaultsOn {
		// local staging faults (harness step stage_fail): the next staged level-0
		// file meets a full disk at open, while being written, or at fsync
		db.VerifSetOpenLTXFile(func(name string, flag int, perm os.FileMode) (litestream.VerifStagingFile, error) {
			mode := e.stageFault
			e.stageFault = ""
			if mode == "open" {
				e.Res.FaultsHit["stage_open_enospc"]++
				return nil, &os.PathError{Op: "open", Path: name, Err: syscall.ENOSPC}
			}
			verifhook.FS("create", name, "")
			f, err := os.OpenFile(name, flag, perm)
			if err != nil || mode == "" {
				return f, err
			}
			return &faultyStagingFile{File: f, mode: mode, e: e}, nil
		})
	}
	return db, client
}

type faultyStagingFile struct {
	*os.File
	mode string // write | sync
	n    int
	e    *Env
}

func (f *faultyStagingFile) Write(p []byte) (int, error) {
	if f.mode == "write" {
		f.n += len(p)
		if f.n > 200 {
			f.e.Res.FaultsHit["stage_write_enospc"]++
			return 0, &os.PathError{Op: "write", Path: f.Name(), Err: syscall.ENOSPC}
		}
	}
	return f.File.Write(p)
}

func (f *faultyStagingFile) Sync() error {
	if f.mode == "sync" {
		f.e.Res.FaultsHit["stage_sync_error"]++
		return &os.PathError{Op: "sync", Path: f.Name(), Err: syscall.EIO}
	}
	return f.File.Sync()
}

func (e *Env) startLS() error {
	cfg := &e.Prog.Cfg
	db, client := e.newDB()
	levels := e.levels()
	store := litestream.NewStore([]*litestream.DB{db}, levels)
	store.CompactionMonitorEnabled = false
	store.L0RetentionCheckInterval = 0
	store.HeartbeatCheckInterval = 0
	if cfg.SnapshotIntervalMs > 0 {
		store.SnapshotInterval = time.Duration(cfg.SnapshotIntervalMs) * time.Millisecond
	}
	if cfg.SnapshotRetentionMs > 0 {
		store.SnapshotRetention = time.Duration(cfg.SnapshotRetentionMs) * time.Millisecond
	}
	store.SetL0Retention(time.Duration(cfg.L0RetentionMs) * time.Millisecond)
	store.SetRetentionEnabled(cfg.RetentionEnabled)
	store.SetVerifyCompaction(cfg.VerifyCompaction)
	// not a multiple of the retry interval: a retry timer and the deadline would
	// otherwise fire at the same simulated instant, in an order nobody decides
	store.SetShutdownSyncTimeout(2*time.Second + 100*time.Millisecond)
	store.SetShutdownSyncInterval(500 * time.Millisecond)
	if err := store.Open(context.Background()); err != nil {
		return err
	}
	srv := litestream.NewServer(store)
	e.LS = &LSInst{Store: store, DB: db, Server: srv, Client: client, Levels: levels}
	return nil
}

// closeSnapRd ends an open snapshot stream (N=0: read to the end first, as an
// upload that completes; otherwise abandon it, as an upload that failed).
func (e *Env) closeSnapRd(drain bool) string {
	if e.snapRd == nil {
		return "noop:none"
	}
	var err error
	if drain {
		_, err = io.Copy(io.Discard, e.snapRd)
	}
	cerr := e.snapRd.Close()
	e.snapRd = nil
	synctest.Wait()
	if err == nil {
		err = cerr
	}
	return errStr(err)
}

func (e *Env) stopLS(ctx context.Context) error {
	if e.LS == nil {
		return nil
	}
	e.closeSnapRd(false)
	err := e.LS.Store.Close(ctx)
	e.LS = nil
	return err
}

func errStr(err error) string {
	if err == nil {
		return "ok"
	}
	s := err.Error()
	if len(s) > 160 {
		s = s[:160]
	}
	return "err:" + s
}

// execOp executes one op. Returns a result string and whether the op is an
// acknowledged replication round.
func (e *Env) execOp(op *Op) (string, bool) {
	// every op runs under its own cancellable context: the interposable harness
	// step "cancel_ctx" cancels it at a yield site (a request that times out or
	// a caller that gives up at an arbitrary instant)
	// The context is NOT cancelled when the op returns: litestream's monitors
	// call these operations with a context that lives as long as the process,
	// and database/sql rolls back transactions of a cancelled context, which
	// would hide a transaction that an operation forgot to end.
	ctx, cancel := context.WithCancel(context.Background())
	e.opCancel = cancel
	defer func() { e.opCancel = nil }()
	switch {
	case op.Kind == "app":
		if op.Step != nil && op.Step.K == "save_copy" {
			e.doDownSteps([]Step{*op.Step})
			return "ok", false
		}
		return e.appDo(op.Step), false
	case op.Kind == "sleep":
		time.Sleep(time.Duration(op.Ms) * time.Millisecond)
		return "ok", false
	}
	if x, ok := extraOps[op.Kind]; ok {
		e.closeSnapRd(false) // lifecycle and property-specific operations run without a snapshot stream in flight
		return x(e, op)
	}
	if e.LS == nil {
		return "noop:down", false
	}
	db := e.LS.DB
	switch op.Kind {
	case "snap_open":
		// a snapshot upload that has started and is still streaming while later
		// operations run (the store's snapshot monitor, another goroutine in the
		// daemon): internal checkpoints are skipped until it ends
		if e.snapRd != nil {
			return "noop:open", false
		}
		_, rd, err := db.SnapshotReader(context.Background())
		if err != nil {
			return errStr(err), false
		}
		e.snapRd = rd
		synctest.Wait() // the encoder goroutine is parked on the pipe
		e.Res.Probes["snapshot_streams_opened"]++
		return "ok", false
	case "snap_close":
		return e.closeSnapRd(op.N == 0), false
	case "ls_sync":
		return errStr(db.Sync(ctx)), false
	case "ls_replica_sync":
		return errStr(db.Replica.Sync(ctx)), false
	case "ls_sync_wait":
		err := db.SyncAndWait(ctx)
		return errStr(err), err == nil
	case "ls_store_sync":
		_, err := e.LS.Store.SyncDB(ctx, e.DBPath, true)
		return errStr(err), err == nil
	case "ls_http_sync":
		body, _ := json.Marshal(map[string]any{"path": e.DBPath, "wait": true, "timeout": 30})
		req := httptest.NewRequest(http.MethodPost, "/sync", bytes.NewReader(body))
		rec := httptest.NewRecorder()
		e.LS.Server.VerifHandler().ServeHTTP(rec, req)
		if rec.Code == 200 {
			return "ok", true
		}
		return fmt.Sprintf("err:http %d %s", rec.Code, strings.TrimSpace(rec.Body.String())), false
	case "ls_ckpt":
		return errStr(db.Checkpoint(ctx, op.Mode)), false
	case "ls_snapshot":
		_, err := db.Snapshot(ctx)
		return errStr(err), false
	case "ls_compact":
		lv := op.Level
		var lvl *litestream.CompactionLevel
		if lv == litestream.SnapshotLevel {
			lvl = e.LS.Store.SnapshotLevel()
		} else if lv >= 1 && lv < len(e.LS.Levels) {
			lvl = e.LS.Levels[lv]
		} else {
			return "noop:level", false
		}
		_, err := e.LS.Store.CompactDB(ctx, db, lvl)
		return errStr(err), false
	case "ls_compact_raw":
		if op.Level < 1 || op.Level >= len(e.LS.Levels) {
			return "noop:level", false
		}
		_, err := db.Compact(ctx, op.Level)
		return errStr(err), false
	case "ls_snap_retention":
		return errStr(e.LS.Store.EnforceSnapshotRetention(ctx, db)), false
	case "ls_snap_retention_only":
		// first half of Store.EnforceSnapshotRetention; the cascade to the lower
		// levels is issued separately (ls_txid_retention) with the TXID it returned.
		txid, err := db.EnforceSnapshotRetention(ctx, time.Now().Add(-e.LS.Store.SnapshotRetention))
		if err == nil {
			e.minSnapshotTXID = txid
		}
		return errStr(err), false
	case "ls_l0_retention":
		return errStr(db.EnforceL0RetentionByTime(ctx)), false
	case "ls_txid_retention":
		if op.Level < 0 || op.Level >= len(e.LS.Levels) {
			return "noop:level", false
		}
		return errStr(db.EnforceRetentionByTXID(ctx, op.Level, e.minSnapshotTXID)), false
	case "ls_close":
		// A clean shutdown counts as an acknowledged round only if this
		// instance had started replicating the database (a shutdown before the
		// first sync ever looked at the database acknowledges nothing).
		started := db.SQLDB() != nil
		err := e.stopLS(ctx)
		return errStr(err), err == nil && started
	}
	return "noop:unknown:" + op.Kind, false
}

// harnessSteps lets property files register interposable steps of parties other
// than the application writer.
var harnessSteps = map[string]func(e *Env, st *Step) string{}

func init() {
	extraOps["store_down"] = func(e *Env, op *Op) (string, bool) {
		e.FS.Outage = true
		e.Res.Probes["store_outages"]++
		return "ok", false
	}
	extraOps["store_up"] = func(e *Env, op *Op) (string, bool) {
		e.FS.Outage = false
		return "ok", false
	}
	// another litestream operation of the same instance runs to completion while
	// the interrupted one has not yet taken the executor (only meaningful at
	// sites that lie before the acquisition of a lock: db:lock_exec,
	// replica:lock_sync, snapshot:position_captured, snapshot:before_write)
	harnessSteps["ls_nested_sync"] = func(e *Env, st *Step) string {
		if e.LS == nil {
			return "noop"
		}
		ctx := context.Background()
		e.Res.Probes["nested_ls_ops"]++
		if err := e.LS.DB.Sync(ctx); err != nil {
			return errStr(err)
		}
		if st.N > 0 {
			return errStr(e.LS.DB.Replica.Sync(ctx))
		}
		return "ok"
	}
	harnessSteps["stage_fail"] = func(e *Env, st *Step) string {
		if !e.stageFaultsOn {
			return "noop"
		}
		e.stageFault = st.Mode
		if e.stageFault == "" {
			e.stageFault = "open"
		}
		e.Res.Probes["stage_faults_armed"]++
		return "ok"
	}
	harnessSteps["cancel_ctx"] = func(e *Env, st *Step) string {
		if e.opCancel == nil {
			return "noop"
		}
		e.opCancel()
		e.Res.Probes["ctx_cancelled"]++
		e.Res.FaultsHit["ctx_cancel"]++
		return "ok"
	}
	harnessSteps["sql_fail"] = func(e *Env, st *Step) string {
		// the statement litestream is about to execute fails (an I/O error inside
		// SQLite, or SQLITE_BUSY where that is a possible outcome)
		if st.Mode == "busy" {
			sqlFault = fmt.Errorf("database is locked (5) (SQLITE_BUSY)")
		} else {
			sqlFault = fmt.Errorf("disk I/O error (10) (SQLITE_IOERR)")
		}
		e.Res.Probes["sql_faults"]++
		e.Res.FaultsHit["sql_"+map[bool]string{true: "busy", false: "ioerr"}[st.Mode == "busy"]]++
		return "ok"
	}
}

// extraOps lets property files register additional op kinds.
var extraOps = map[string]func(e *Env, op *Op) (string, bool){}

// restoreAlone restores through a fresh Replica that has no DB, using a fresh
// fault-free client on the same store, into an empty path.
func (e *Env) restoreAlone(mut func(o *litestream.RestoreOptions)) ([]byte, error) {
	e.restoreN++
	client := file.NewReplicaClient(e.RepDir)
	r := litestream.NewReplicaWithClient(nil, client)
	opt := litestream.NewRestoreOptions()
	opt.OutputPath = filepath.Join(e.Scratch, fmt.Sprintf("restore-%d.db", e.restoreN))
	for _, s := range []string{"", "-wal", "-shm", ".tmp", "-txid"} {
		_ = os.Remove(opt.OutputPath + s)
	}
	if mut != nil {
		mut(&opt)
	}
	if err := r.Restore(context.Background(), opt); err != nil {
		return nil, err
	}
	img, err := os.ReadFile(opt.OutputPath)
	for _, s := range []string{"", "-wal", "-shm", ".tmp"} {
		_ = os.Remove(opt.OutputPath + s)
	}
	return img, err
}

// matchStates returns indices j in [lo,hi] whose state equals img.
func (e *Env) matchStates(img []byte, lo, hi int) []int {
	ps := e.Led.PageSize
	if len(img)%ps != 0 {
		return nil
	}
	h := StateFromImage(img, ps).Hash()
	var out []int
	for _, j := range e.Led.Lookup(h) {
		if j >= lo && j <= hi {
			out = append(out, j)
		}
	}
	sort.Ints(out)
	return out
}

// checkAckC01 is the C01 oracle, evaluated at an acknowledged sync.
func (e *Env) checkAckC01(opIdx int) *Violation {
	// Ledger soundness first: real SQLite must agree with the ledger
	// (first ack of a run and every third after it; every ack when strict).
	nth := len(e.Acks)
	if e.StrictLedger || nth%3 == 0 {
		if err := e.Led.CrossCheck(e.Scratch); err != nil {
			e.Res.Trouble = e.san(err.Error())
			return nil
		}
		e.Res.Probes["ledger:crosschecks"]++
	}
	lo, hi := e.AckStartApp, len(e.Led.States)-1
	e.Res.Checks++
	img, err := e.restoreAlone(nil)
	rec := AckRec{Op: opIdx, StateLo: lo, StateHi: hi, Restored: -1, SimTime: time.Now()}
	if e.LS != nil {
		if p, err := e.LS.DB.Pos(); err == nil {
			rec.TXID = p.TXID
		}
	}
	if err != nil {
		v := e.fail("ack-restore-error", "sync acknowledged at op %d but restore from the replica alone failed: %v", opIdx, err)
		return v
	}
	m := e.matchStates(img, lo, hi)
	if len(m) == 0 {
		all := e.matchStates(img, 0, len(e.Led.States)-1)
		want := e.Led.States[hi]
		d := DiffImage(want, img, e.Led.PageSize)
		v := e.fail("ack-restore-mismatch", "sync acknowledged at op %d; restored database is not the source's committed state (admissible ledger states %d..%d; restored equals states %v; vs newest: %s)", opIdx, lo, hi, all, d)
		v.Facts["restored_matches"] = fmt.Sprint(all)
		if len(all) > 0 {
			v.Facts["stale"] = true
		}
		return v
	}
	rec.Restored = m[len(m)-1]
	e.Acks = append(e.Acks, rec)
	if !e.StrictLedger && nth%3 != 0 {
		return nil
	}
	ic, err := IntegrityCheck(img, e.Scratch)
	e.Res.Probes["integrity_checks"]++
	if err != nil {
		return e.fail("ack-integrity-error", "integrity_check on restored database could not run: %v", err)
	}
	if ic != "ok" {
		// The source itself must be ok for this to be litestream's fault.
		srcImg, _ := SQLiteRecoveredImage(e.DBPath, e.Scratch)
		sic, _ := IntegrityCheck(srcImg, e.Scratch)
		if sic == "ok" {
			return e.fail("ack-integrity", "restored database fails integrity_check: %s", ic)
		}
	}
	return nil
}

// appDo executes an application step and records it for the twin run (C14).
func (e *Env) appDo(st *Step) string {
	r := e.App.Do(st)
	e.AppTrace = append(e.AppTrace, *st)
	e.AppTraceRes = append(e.AppTraceRes, strings.HasPrefix(r, "ok"))
	return r
}

// checkSourceMeta: the source stays in WAL mode and _litestream_lock is empty.
func (e *Env) checkSourceMeta(copyPath string) *Violation {
	b, err := os.ReadFile(e.DBPath)
	if err != nil || len(b) < 100 {
		return e.fail("source-unreadable", "read source header: %v", err)
	}
	if b[18] != 2 || b[19] != 2 {
		return e.fail("not-wal-mode", "source database header read/write versions are %d/%d, not WAL (2/2)", b[18], b[19])
	}
	db, err := sql.Open("sqlite", "file:"+copyPath+"?_pragma=busy_timeout(0)")
	if err != nil {
		return nil
	}
	defer func() {
		db.Close()
		os.Remove(copyPath + "-wal")
		os.Remove(copyPath + "-shm")
	}()
	var n int
	if err := db.QueryRow("SELECT count(*) FROM _litestream_lock").Scan(&n); err == nil && n != 0 {
		return e.fail("lock-table-not-empty", "_litestream_lock holds %d rows", n)
	}
	var internal int
	if err := db.QueryRow("SELECT count(*) FROM sqlite_master WHERE name LIKE '\\_litestream\\_%' ESCAPE '\\'").Scan(&internal); err == nil && internal > 2 {
		return e.fail("extra-internal-objects", "%d _litestream_* objects in the source schema (expected at most 2)", internal)
	}
	return nil
}

func (e *Env) probeLogger() *slog.Logger { return slog.New(e.Probe) }
