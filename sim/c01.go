package sim

// C01 — an acknowledged sync restores to exactly the source database.

var lsWeightsC01 = []int{10, 5, 16, 2, 2, 7, 2, 3, 3}

func genHistory(r *Rng, cfg *Config, n int, lsW []int, pInterpose float64) []Op {
	var ops []Op
	for i := 0; i < n; i++ {
		if r.Chance(0.55) {
			ops = append(ops, appOp(genAppStep(r, cfg)))
			continue
		}
		if pInterpose > 0 && r.Chance(0.08) {
			ops = append(ops, genBusyWindow(r, cfg, lsW)...)
			continue
		}
		if pInterpose > 0 && r.Chance(0.06) {
			ops = append(ops, genLockWindow(r, cfg)...)
			continue
		}
		if pInterpose > 0 && r.Chance(0.05) {
			ops = append(ops, genFailedCheckpoint(r, cfg)...)
			continue
		}
		if pInterpose > 0 && r.Chance(0.04) {
			ops = append(ops, genQueuedOp(r, cfg)...)
			continue
		}
		if pInterpose > 0 && r.Chance(0.04) {
			ops = append(ops, genBoundaryStageFail(r, cfg)...)
			continue
		}
		if r.Chance(0.04) {
			ops = append(ops, genSnapshotWindow(r, cfg, lsW)...)
			continue
		}
		if r.Chance(0.04) {
			if x := genIdleRetention(r, cfg); x != nil {
				ops = append(ops, x...)
				continue
			}
		}
		op := genLSOp(r, cfg, lsW)
		if op.Kind != "sleep" && r.Chance(pInterpose) {
			k := 1
			if r.Chance(0.2) {
				k = 2
			}
			for j := 0; j < k; j++ {
				op.Interpose = append(op.Interpose, genInterpose(r, cfg))
			}
		}
		ops = append(ops, op)
	}
	return ops
}

func genC01(r *Rng, tier string, idx int) *Program {
	p := &Program{Property: "C01", Engine: "HIST"}
	p.Cfg = genConfig(r)
	n := r.Range(4, 28)
	if r.Chance(0.15) {
		n = r.Range(28, 60)
	}
	pi := []float64{0, 0.15, 0.4}[r.Intn(3)]
	p.Ops = genHistory(r, &p.Cfg, n, lsWeightsC01, pi)
	// always finish with an acknowledged round; sometimes a clean shutdown too.
	p.Ops = append(p.Ops, Op{Kind: "ls_sync_wait"})
	if r.Chance(0.3) {
		p.Ops = append(p.Ops, appOp(genAppStep(r, &p.Cfg)), Op{Kind: "ls_close"})
	}
	return p
}

func runC01(t testingT, p *Program) *Result {
	return RunHIST(t, p, func(e *Env) {
		e.OnAck = func(e *Env, i int) *Violation { return e.checkAckC01(i) }
	})
}

func init() {
	register(&Prop{
		ID: "C01", Engine: "HIST", Gen: genC01, Run: runC01,
		Runs:       map[string]int{"quick": 1600, "thorough": 40000},
		Nontrivial: func(res *Result) bool { return res.Acks > 0 },
		Rule: "programs of 5-62 ops generated from the run seed (application steps, litestream ops, interposed application steps at named phases, swarm configuration); " +
			"non-trivial = at least one acknowledged sync was checked by restore; distinct = distinct signature (op-kind sequence incl. interposition sites, page size, auto_vacuum, set of litestream log reasons reached)",
		RealStub: stdRealStub(),
		Assumptions: []string{
			"SQLite's own recovery is the reference for 'committed state' (ledger is cross-checked against it at every ack)",
			"restore is run through a fresh Replica without a DB on the same directory",
		},
	})
}
