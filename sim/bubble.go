package sim

import (
	"fmt"
	"runtime/debug"
	"testing"
	"testing/synctest"
)

// bubble runs f inside a synctest bubble (fake clock). A panic inside f is
// re-raised in the caller's goroutine as a value so RunHIST can classify it.
func bubble(t testingT, f func()) {
	tt := t.(*testing.T)
	var pv any
	var stack []byte
	synctest.Test(tt, func(_ *testing.T) {
		defer func() {
			if r := recover(); r != nil {
				pv = r
				stack = debug.Stack()
			}
		}()
		f()
	})
	if pv != nil {
		panic(fmt.Sprintf("%v\n%s", pv, stack))
	}
}
