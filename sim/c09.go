package sim

import (
	"bytes"
	"context"
	"encoding/binary"
	"fmt"
	"io"
	"log/slog"
	"os"
	"path/filepath"
	"sort"
	"time"

	"github.com/benbjohnson/litestream"
)

// C09 — only frames SQLite itself treats as committed are ever replicated.
//
// Engine WAL: the real WALReader runs over a simulated WAL file (io.ReaderAt
// seam) whose bytes come from a simulated writer: real SQLite WALs harvested
// from generated application histories, then damaged the way storage and
// crashed writers damage them. Oracles: an independent decoder (harness code)
// and real SQLite recovery of the very same bytes.

func genC09(r *Rng, tier string, idx int) *Program {
	p := &Program{Property: "C09", Engine: "WAL"}
	p.Cfg = genConfig(r)
	p.Cfg.AppAutoCkpt = 0
	p.Cfg.InitRows = []int{0, 5, 40}[r.Intn(3)]
	n := r.Range(3, 14)
	for i := 0; i < n; i++ {
		switch r.Pick([]int{70, 12, 6, 6, 6}) {
		case 0:
			p.Ops = append(p.Ops, appOp(genTxn(r, &p.Cfg)))
		case 1:
			// checkpoint so that the next write restarts the WAL and leaves a stale tail
			p.Ops = append(p.Ops, appOp(Step{K: "ckpt", Mode: PickOf(r, []string{"PASSIVE", "FULL", "RESTART"})}))
		case 2:
			p.Ops = append(p.Ops, appOp(Step{K: "vacuum"}))
		case 3:
			s := genTxn(r, &p.Cfg)
			s.K = "hold_begin"
			p.Ops = append(p.Ops, appOp(s), appOp(Step{K: "hold_rollback"}))
		default:
			p.Ops = append(p.Ops, Op{Kind: "harvest"})
		}
	}
	p.Ops = append(p.Ops, Op{Kind: "harvest"})
	cases := int64(60)
	if tier == "thorough" {
		cases = 160
	}
	p.Params = map[string]int64{"cases": cases, "case_seed": int64(r.Uint64() >> 2)}
	return p
}

// ---- independent decoder ----------------------------------------------------

type walFrame struct {
	Pgno, Commit uint32
	Off          int64
}

type walInfo struct {
	OK       bool
	PageSize int
	Big      bool
	Frames   []walFrame // valid frames in order (salt + cumulative checksum), committed or not
}

func decodeWAL(b []byte) walInfo {
	var w walInfo
	if len(b) < 32 {
		return w
	}
	magic := binary.BigEndian.Uint32(b[0:])
	if magic != 0x377f0682 && magic != 0x377f0683 {
		return w
	}
	w.Big = magic == 0x377f0683
	c1, c2 := walChecksum(w.Big, 0, 0, b[:24])
	if c1 != binary.BigEndian.Uint32(b[24:]) || c2 != binary.BigEndian.Uint32(b[28:]) {
		return w
	}
	if binary.BigEndian.Uint32(b[4:]) != 3007000 {
		return w
	}
	ps := int(binary.BigEndian.Uint32(b[8:]))
	if ps < 512 || ps > 65536 || ps&(ps-1) != 0 {
		return w
	}
	w.OK, w.PageSize = true, ps
	s1, s2 := binary.BigEndian.Uint32(b[16:]), binary.BigEndian.Uint32(b[20:])
	fs := 24 + ps
	for off := 32; off+fs <= len(b); off += fs {
		fr := b[off : off+fs]
		if binary.BigEndian.Uint32(fr[8:]) != s1 || binary.BigEndian.Uint32(fr[12:]) != s2 {
			break
		}
		c1, c2 = walChecksum(w.Big, c1, c2, fr[:8])
		c1, c2 = walChecksum(w.Big, c1, c2, fr[24:])
		if c1 != binary.BigEndian.Uint32(fr[16:]) || c2 != binary.BigEndian.Uint32(fr[20:]) {
			break
		}
		pg := binary.BigEndian.Uint32(fr[0:])
		if pg == 0 {
			break // SQLite rejects page number 0
		}
		w.Frames = append(w.Frames, walFrame{Pgno: pg, Commit: binary.BigEndian.Uint32(fr[4:]), Off: int64(off)})
	}
	return w
}

// expectedPageMap: frames start..; budget in bytes (0 = none). Returns the map
// pgno->frame offset of the latest committed version, the commit size and the
// end offset, for the shortest commit-aligned prefix whose length reaches the
// budget (or everything committed when the budget is never reached).
func expectedPageMap(w walInfo, start int, budget int64) (map[uint32]int64, uint32, int64) {
	m := map[uint32]int64{}
	tx := map[uint32]int64{}
	var commit uint32
	var end int64 // end of the last consumed commit frame: where the next read resumes
	fs := int64(24 + w.PageSize)
	startOff := int64(32) + int64(start)*fs
	for i := start; i < len(w.Frames); i++ {
		f := w.Frames[i]
		tx[f.Pgno] = f.Off
		if f.Commit != 0 {
			for k, v := range tx {
				m[k] = v
			}
			tx = map[uint32]int64{}
			commit = f.Commit
			end = f.Off + fs
			if budget > 0 && f.Off+fs-startOff >= budget {
				break
			}
		}
	}
	for k := range m {
		if k > commit {
			delete(m, k)
		}
	}
	return m, commit, end
}

func mapsEqual(a, b map[uint32]int64) bool {
	if len(a) != len(b) {
		return false
	}
	for k, v := range a {
		if b[k] != v {
			return false
		}
	}
	return true
}

func mapStr(m map[uint32]int64) string {
	var ks []int
	for k := range m {
		ks = append(ks, int(k))
	}
	sort.Ints(ks)
	s := ""
	for i, k := range ks {
		if i > 12 {
			s += " ..."
			break
		}
		s += fmt.Sprintf(" %d@%d", k, m[uint32(k)])
	}
	return fmt.Sprintf("{%d pages:%s}", len(m), s)
}

// ---- simulated WAL file -----------------------------------------------------

// growFile is an io.ReaderAt whose visible length grows between calls (a writer
// appending while litestream reads without a lock).
type growFile struct {
	b       []byte
	visible int
	steps   []int
	calls   int
}

func (g *growFile) ReadAt(p []byte, off int64) (int, error) {
	vis := g.visible
	if g.calls < len(g.steps) {
		g.visible += g.steps[g.calls]
		if g.visible > len(g.b) {
			g.visible = len(g.b)
		}
	} else {
		g.visible = len(g.b)
	}
	g.calls++
	if off >= int64(vis) {
		return 0, io.EOF
	}
	n := copy(p, g.b[off:vis])
	if n < len(p) {
		return n, io.EOF
	}
	return n, nil
}

// reencode rewrites a WAL with the other checksum byte order (what a writer on a
// machine of the other endianness produces).
func reencodeWAL(b []byte) []byte {
	w := decodeWAL(b)
	if !w.OK {
		return b
	}
	out := append([]byte(nil), b...)
	big := !w.Big
	if big {
		binary.BigEndian.PutUint32(out[0:], 0x377f0683)
	} else {
		binary.BigEndian.PutUint32(out[0:], 0x377f0682)
	}
	c1, c2 := walChecksum(big, 0, 0, out[:24])
	binary.BigEndian.PutUint32(out[24:], c1)
	binary.BigEndian.PutUint32(out[28:], c2)
	fs := 24 + w.PageSize
	for i := range w.Frames {
		off := 32 + i*fs
		fr := out[off : off+fs]
		c1, c2 = walChecksum(big, c1, c2, fr[:8])
		c1, c2 = walChecksum(big, c1, c2, fr[24:])
		binary.BigEndian.PutUint32(fr[16:], c1)
		binary.BigEndian.PutUint32(fr[20:], c2)
	}
	return out
}

type walCase struct {
	Desc string
	WAL  []byte
}

// mutate produces one damaged WAL from a harvested one.
func mutateWAL(r *Rng, orig []byte, others [][]byte) walCase {
	b := append([]byte(nil), orig...)
	w := decodeWAL(b)
	fs := 24 + w.PageSize
	nf := 0
	if w.OK && fs > 24 {
		nf = (len(b) - 32) / fs
	}
	frameOff := func(i int) int { return 32 + i*fs }
	switch r.Pick([]int{8, 14, 10, 8, 8, 8, 8, 8, 6, 8, 6, 8}) {
	case 0:
		return walCase{"intact", b}
	case 1: // torn tail: cut anywhere
		cut := r.Intn(len(b) + 1)
		return walCase{fmt.Sprintf("truncate@%d", cut), b[:cut]}
	case 2: // torn last frame: header present, data partial
		if nf == 0 {
			return walCase{"intact", b}
		}
		i := r.Intn(nf)
		cut := frameOff(i) + []int{0, 8, 24, 24 + w.PageSize/2, fs - 1}[r.Intn(5)]
		return walCase{fmt.Sprintf("torn-frame#%d@%d", i, cut), b[:cut]}
	case 3: // bit flip
		if len(b) == 0 {
			return walCase{"intact", b}
		}
		o := r.Intn(len(b))
		b[o] ^= 1 << uint(r.Intn(8))
		return walCase{fmt.Sprintf("bitflip@%d", o), b}
	case 4: // lost sector (zeros)
		if len(b) < 600 {
			return walCase{"intact", b}
		}
		o := (r.Intn(len(b)-512) / 512) * 512
		for i := 0; i < 512; i++ {
			b[o+i] = 0
		}
		return walCase{fmt.Sprintf("zero-sector@%d", o), b}
	case 5: // duplicate a frame over the next one
		if nf < 2 {
			return walCase{"intact", b}
		}
		i := r.Intn(nf - 1)
		copy(b[frameOff(i+1):frameOff(i+2)], b[frameOff(i):frameOff(i+1)])
		return walCase{fmt.Sprintf("dup-frame#%d", i), b}
	case 6: // swap two frames
		if nf < 2 {
			return walCase{"intact", b}
		}
		i, j := r.Intn(nf), r.Intn(nf)
		t := append([]byte(nil), b[frameOff(i):frameOff(i+1)]...)
		copy(b[frameOff(i):frameOff(i+1)], b[frameOff(j):frameOff(j+1)])
		copy(b[frameOff(j):frameOff(j+1)], t)
		return walCase{fmt.Sprintf("swap-frames#%d,#%d", i, j), b}
	case 7: // salt edit in a frame
		if nf == 0 {
			return walCase{"intact", b}
		}
		i := r.Intn(nf)
		b[frameOff(i)+8+r.Intn(8)] ^= 0x40
		return walCase{fmt.Sprintf("salt-edit#%d", i), b}
	case 8: // commit field edit (mark a non-commit frame as commit or clear a commit)
		if nf == 0 {
			return walCase{"intact", b}
		}
		i := r.Intn(nf)
		cur := binary.BigEndian.Uint32(b[frameOff(i)+4:])
		if cur == 0 {
			binary.BigEndian.PutUint32(b[frameOff(i)+4:], uint32(1+r.Intn(50)))
		} else {
			binary.BigEndian.PutUint32(b[frameOff(i)+4:], 0)
		}
		return walCase{fmt.Sprintf("commit-edit#%d", i), b}
	case 9: // stale tail: append frames of another (earlier) WAL image behind this one
		if len(others) == 0 || nf == 0 {
			return walCase{"intact", b}
		}
		o := others[r.Intn(len(others))]
		if len(o) > len(b) {
			b = append(b, o[len(b):]...)
			return walCase{"stale-tail-from-other-generation", b}
		}
		return walCase{"intact", b}
	case 10: // byte-order re-encoding
		return walCase{"reencode-byte-order", reencodeWAL(b)}
	default: // garbage tail
		n := r.Range(1, 3*fs+7)
		g := make([]byte, n)
		for i := range g {
			g[i] = byte(r.Intn(256))
		}
		return walCase{fmt.Sprintf("garbage-tail+%d", n), append(b, g...)}
	}
}

func runC09(t testingT, p *Program) *Result {
	res := &Result{Seed: p.Seed, Probes: map[string]int{}, FaultsHit: map[string]int{}}
	wall := time.Now()
	base := os.Getenv("VERIF_TMP")
	if base == "" {
		base = "/dev/shm"
	}
	dir := filepath.Join(base, fmt.Sprintf("verif-%d-%d", os.Getpid(), runCounter.Add(1)))
	os.RemoveAll(dir)
	os.MkdirAll(dir, 0o755)
	defer os.RemoveAll(dir)
	dbPath := filepath.Join(dir, "db")
	scratch := filepath.Join(dir, "scratch")
	logger := slog.New(newProbeHandler())
	var events []string
	fail := func(class, format string, a ...any) *Violation {
		return &Violation{Property: "C09", Class: class, Msg: fmt.Sprintf(format, a...), Facts: map[string]any{}}
	}
	app, err := CreateAppDB(dbPath, &p.Cfg, p.Seed)
	if err != nil {
		res.Trouble = "create app db: " + err.Error()
		return res
	}
	type image struct{ db, wal []byte }
	var images []image
	harvest := func() {
		db, err1 := os.ReadFile(dbPath)
		wal, err2 := os.ReadFile(dbPath + "-wal")
		if err1 == nil && err2 == nil && len(wal) > 32 {
			images = append(images, image{db, wal})
		}
	}
	for i := range p.Ops {
		op := &p.Ops[i]
		if op.Kind == "harvest" {
			harvest()
			continue
		}
		if op.Step != nil {
			r := app.Do(op.Step)
			events = append(events, fmt.Sprintf("op%d %s -> %s", i, op.Step.K, r))
		}
	}
	app.Do(&Step{K: "hold_rollback"})
	harvest()
	app.Close()
	res.Ops = len(p.Ops)
	res.Probes["images"] = len(images)
	if len(images) == 0 {
		res.WallMs = time.Since(wall).Milliseconds()
		res.Events = events
		return res
	}
	ctx := context.Background()
	r := NewRng(uint64(p.Params["case_seed"]))
	var wals [][]byte
	for _, im := range images {
		wals = append(wals, im.wal)
	}
	ncases := int(p.Params["cases"])
	for ci := 0; ci < ncases && res.Violation == nil; ci++ {
		im := images[r.Intn(len(images))]
		c := mutateWAL(r, im.wal, wals)
		res.FaultsHit[faultKindOf(c.Desc)]++
		w := decodeWAL(c.WAL)
		desc := fmt.Sprintf("case %d [%s] wal=%dB", ci, c.Desc, len(c.WAL))

		// (1) full read from the header, no budget: must equal the independent decoder, and
		//     db+pageMap must equal what real SQLite recovers from the same bytes.
		rd, err := litestream.NewWALReader(bytes.NewReader(c.WAL), logger)
		got := map[uint32]int64{}
		var gotCommit uint32
		var gotEnd int64
		if err == nil {
			got, gotEnd, gotCommit, _, err = rd.VerifPageMap(ctx, 0)
			if err != nil {
				res.Probes["reader_error"]++
				got = map[uint32]int64{}
			}
		} else {
			res.Probes["reader_rejects_header"]++
		}
		want, wantCommit, wantEnd := expectedPageMap(w, 0, 0)
		res.Checks++
		if !mapsEqual(got, want) || (len(want) > 0 && gotCommit != wantCommit) {
			res.Violation = fail("pagemap-differs-from-decoder", "%s: WALReader.pageMap returned %s commit=%d; the independent decoder expects %s commit=%d", desc, mapStr(got), gotCommit, mapStr(want), wantCommit)
			break
		}
		if len(want) > 0 && gotEnd != wantEnd {
			res.Violation = fail("pagemap-cursor", "%s: WALReader.pageMap reports it consumed the WAL up to offset %d; the last valid commit frame ends at %d (the next copy would resume at the wrong place)", desc, gotEnd, wantEnd)
			break
		}
		// real SQLite on the same bytes
		if ci%2 == 0 {
			res.Checks++
			img, serr := sqliteRecover(im.db, c.WAL, scratch)
			if serr != nil {
				res.Probes["sqlite_recover_error"]++
			} else {
				ps := w.PageSize
				if ps == 0 {
					ps, _ = pageSizeOf(im.db)
				}
				exp := overlay(im.db, c.WAL, got, gotCommit, ps)
				if !bytes.Equal(exp, img) {
					// decide who is off: decoder vs SQLite (harness error) or reader vs SQLite (violation)
					exp2 := overlay(im.db, c.WAL, want, wantCommit, ps)
					if bytes.Equal(exp2, img) {
						res.Violation = fail("replicates-what-sqlite-does-not-recover", "%s: database + pageMap differs from what SQLite recovers from the same WAL", desc)
					} else {
						res.Trouble = fmt.Sprintf("%s: independent decoder disagrees with SQLite recovery (harness error)", desc)
					}
					break
				}
				res.Probes["sqlite_crosschecks"]++
			}
		}
		if !w.OK || len(w.Frames) == 0 {
			continue
		}
		fs := int64(24 + w.PageSize)
		// (2) byte budgets from the header
		for _, budget := range []int64{1, fs, fs * int64(1+r.Intn(len(w.Frames)+1)), int64(r.Intn(int(fs)*len(w.Frames) + 1))} {
			if budget <= 0 {
				continue
			}
			rd, err := litestream.NewWALReader(bytes.NewReader(c.WAL), logger)
			if err != nil {
				break
			}
			got, gotEnd, gotCommit, _, err := rd.VerifPageMap(ctx, budget)
			if err != nil {
				continue
			}
			want, wantCommit, wantEnd := expectedPageMap(w, 0, budget)
			res.Checks++
			if !mapsEqual(got, want) || (len(want) > 0 && gotCommit != wantCommit) {
				res.Violation = fail("pagemap-budget", "%s budget=%d: pageMap returned %s commit=%d; expected the shortest commit-aligned prefix reaching the budget %s commit=%d", desc, budget, mapStr(got), gotCommit, mapStr(want), wantCommit)
				break
			}
			if len(want) > 0 && gotEnd != wantEnd {
				res.Violation = fail("pagemap-cursor", "%s budget=%d: pageMap reports it consumed the WAL up to offset %d; the last consumed commit frame ends at %d", desc, budget, gotEnd, wantEnd)
				break
			}
		}
		if res.Violation != nil {
			break
		}
		// (3) start offsets on frame boundaries inside the valid chain, correct salts
		salt1, salt2 := binary.BigEndian.Uint32(c.WAL[16:]), binary.BigEndian.Uint32(c.WAL[20:])
		for k := 0; k < 3; k++ {
			s := 1 + r.Intn(len(w.Frames))
			off := int64(32) + int64(s)*fs
			rd, err := litestream.NewWALReaderWithOffset(ctx, bytes.NewReader(c.WAL), off, salt1, salt2, logger)
			if err != nil {
				res.Probes["offset_reader_error"]++
				continue
			}
			budget := int64(0)
			if r.Chance(0.4) {
				budget = int64(r.Intn(int(fs)*4) + 1)
			}
			got, gotEnd, gotCommit, _, err := rd.VerifPageMap(ctx, budget)
			if err != nil {
				continue
			}
			want, wantCommit, wantEnd := expectedPageMap(w, s, budget)
			res.Checks++
			res.Probes["offset_reads"]++
			if !mapsEqual(got, want) || (len(want) > 0 && gotCommit != wantCommit) {
				res.Violation = fail("pagemap-offset", "%s start frame %d budget=%d: pageMap returned %s commit=%d; expected %s commit=%d", desc, s, budget, mapStr(got), gotCommit, mapStr(want), wantCommit)
				break
			}
			if len(want) > 0 && gotEnd != wantEnd {
				res.Violation = fail("pagemap-cursor", "%s start frame %d budget=%d: pageMap reports it consumed the WAL up to offset %d; the last consumed commit frame ends at %d", desc, s, budget, gotEnd, wantEnd)
				break
			}
		}
		if res.Violation != nil {
			break
		}
		// (5) incremental consumption, as DB.Sync does it: the WAL becomes visible in
		//     growing prefixes (a writer appending, including mid-transaction
		//     spills), every pass resumes at the offset the previous pass
		//     reported; the union of the passes must equal one full read.
		if ci%2 == 1 {
			acc := map[uint32]int64{}
			var accCommit uint32
			cursor := int64(32)
			vis := 32 + r.Intn(len(c.WAL)-31)
			passes, bad := 0, false
			for step := 0; step < 100000; step++ {
				var rd *litestream.WALReader
				var err error
				if cursor == 32 {
					rd, err = litestream.NewWALReader(bytes.NewReader(c.WAL[:vis]), logger)
				} else {
					rd, err = litestream.NewWALReaderWithOffset(ctx, bytes.NewReader(c.WAL[:vis]), cursor, salt1, salt2, logger)
				}
				if err != nil {
					bad = true
					break
				}
				budget := int64(0)
				if r.Chance(0.5) {
					budget = int64(r.Intn(int(fs)*3) + 1)
				}
				m, end, cm, _, err := rd.VerifPageMap(ctx, budget)
				if err != nil {
					bad = true
					break
				}
				for k, v := range m {
					acc[k] = v
				}
				if len(m) > 0 {
					accCommit = cm
					passes++
				}
				progressed := end > cursor
				if progressed {
					cursor = end
				}
				if vis < len(c.WAL) {
					vis += 1 + r.Intn(int(fs)*3)
					if vis > len(c.WAL) {
						vis = len(c.WAL)
					}
				} else if !progressed {
					break
				}
			}
			if !bad {
				for k := range acc {
					if k > accCommit {
						delete(acc, k)
					}
				}
				res.Checks++
				res.Probes["incremental_reads"]++
				if passes >= 2 {
					res.Probes["incremental_multi_pass"]++
				}
				if !mapsEqual(acc, want) || (len(want) > 0 && accCommit != wantCommit) {
					res.Violation = fail("pagemap-incremental", "%s: copying the WAL in %d resumed passes (each from the offset the previous one reported) yields %s commit=%d; one full read yields %s commit=%d", desc, passes, mapStr(acc), accCommit, mapStr(want), wantCommit)
					break
				}
			} else {
				res.Probes["incremental_reader_error"]++
			}
		}
		if res.Violation != nil {
			break
		}
		// (4) race: the visible length grows between ReadAt calls
		if ci%3 == 0 {
			g := &growFile{b: c.WAL, visible: 32 + r.Intn(len(c.WAL)-31)}
			for i := 0; i < 40; i++ {
				g.steps = append(g.steps, r.Intn(int(fs)))
			}
			lo := g.visible
			rd, err := litestream.NewWALReader(g, logger)
			if err == nil {
				got, _, gotCommit, _, err := rd.VerifPageMap(ctx, 0)
				if err == nil {
					res.Checks++
					res.Probes["race_reads"]++
					ok := false
					// admissible: the result for some prefix length between lo and the end
					minN := int((int64(lo) - 32) / fs) // complete frames visible when the read began
					if minN > len(w.Frames) {
						minN = len(w.Frames)
					}
					for n := minN; n <= len(w.Frames) && !ok; n++ {
						wp := w
						wp.Frames = w.Frames[:n]
						want, wantCommit, _ := expectedPageMap(wp, 0, 0)
						if mapsEqual(got, want) && (len(want) == 0 || gotCommit == wantCommit) {
							ok = true
						}
					}
					if !ok {
						res.Violation = fail("pagemap-race", "%s reader racing a writer (visible length %d growing): pageMap returned %s commit=%d which is not the result of any prefix of the WAL", desc, lo, mapStr(got), gotCommit)
						break
					}
				}
			}
		}
	}
	res.Events = events
	res.WallMs = time.Since(wall).Milliseconds()
	return res
}

func faultKindOf(desc string) string {
	for i, c := range desc {
		if c == '@' || c == '#' || c == '+' {
			return desc[:i]
		}
	}
	return desc
}

func pageSizeOf(db []byte) (int, error) {
	if len(db) < 100 {
		return 0, fmt.Errorf("short db")
	}
	ps := int(binary.BigEndian.Uint16(db[16:18]))
	if ps == 1 {
		ps = 65536
	}
	return ps, nil
}

// overlay renders db + WAL pages selected by a page map as a database image.
func overlay(db, wal []byte, m map[uint32]int64, commit uint32, ps int) []byte {
	if ps == 0 {
		return db
	}
	n := len(db) / ps
	if len(m) > 0 && commit > 0 {
		n = int(commit)
	}
	out := make([]byte, n*ps)
	copy(out, db)
	for pg, off := range m {
		if int(pg) <= n && int(off)+24+ps <= len(wal) {
			copy(out[(int(pg)-1)*ps:], wal[off+24:off+24+int64(ps)])
		}
	}
	return out
}

// sqliteRecover writes db+wal to scratch and returns what SQLite recovers.
func sqliteRecover(db, wal []byte, scratch string) ([]byte, error) {
	os.MkdirAll(scratch, 0o755)
	p := filepath.Join(scratch, "src.db")
	for _, s := range []string{"", "-wal", "-shm"} {
		os.Remove(p + s)
	}
	if err := os.WriteFile(p, db, 0o644); err != nil {
		return nil, err
	}
	if err := os.WriteFile(p+"-wal", wal, 0o644); err != nil {
		return nil, err
	}
	img, err := SQLiteRecoveredImage(p, filepath.Join(scratch, "rec"))
	for _, s := range []string{"", "-wal", "-shm"} {
		os.Remove(p + s)
	}
	return img, err
}

func init() {
	register(&Prop{ID: "C09", Engine: "WAL", Gen: genC09, Run: runC09, Nontrivial: func(r *Result) bool {
		return r.Probes["images"] > 0 && r.Checks > 10
	}})
}
