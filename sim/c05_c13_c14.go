package sim

import (
	"context"
	"fmt"
	"os"
	"path/filepath"
	"strings"
	"time"

	"github.com/benbjohnson/litestream"
)

// ---- C05: transient storage failures ----------------------------------------

var genericFaultKinds = []string{"fail_before", "fail_after", "short_upload", "short_read", "mid_error", "iter_error"}

func genC05(r *Rng, tier string, idx int) *Program {
	p := &Program{Property: "C05", Engine: "HIST"}
	p.Cfg = genConfig(r)
	p.Cfg.LevelMs = []int64{3000, 20000}[:r.Range(1, 2)]
	n := r.Range(8, 40)
	w := []int{8, 10, 14, 2, 2, 5, 4, 12, 6}
	p.Ops = genHistory(r, &p.Cfg, n, w, 0.05)
	// fault assignment over client call indices; 25% of the runs are fault-free
	// (same generator) so that the relaxed oracle cannot hide an ordinary bug.
	if idx%4 != 0 {
		rate := []float64{0.05, 0.12, 0.3}[r.Intn(3)]
		enabled := map[string]bool{}
		for _, k := range genericFaultKinds {
			if r.Chance(0.7) {
				enabled[k] = true
			}
		}
		for call := 0; call < 6*n+20; call++ {
			if !r.Chance(rate) {
				continue
			}
			k := PickOf(r, genericFaultKinds)
			if !enabled[k] {
				continue
			}
			arg := int64([]int{0, 1, 50, 99, 100, 120, 700, 5000}[r.Intn(8)])
			p.Faults = append(p.Faults, Fault{Call: call, Kind: k, Arg: arg})
			// bursts: a fault that outlasts a retry budget (the broken stream plus
			// the following re-opens all fail)
			if r.Chance(0.25) {
				n := r.Range(2, 6)
				for j := 1; j <= n; j++ {
					kk := k
					if r.Chance(0.5) {
						kk = "fail_before"
					}
					p.Faults = append(p.Faults, Fault{Call: call + j, Kind: kk, Arg: arg})
				}
				call += n
			}
		}
		// storms on one call kind: e.g. every download breaks mid-stream for a while
		// (beyond the resumable reader's retry budget) while listing and uploads work
		for k := 0; k < r.Pick([]int{5, 3, 2}); k++ {
			on := PickOf(r, []string{"open", "open", "write", "list", "delete"})
			kind := map[string][]string{"open": {"mid_error", "short_read", "fail_before"}, "write": {"short_upload", "fail_before", "fail_after"},
				"list": {"fail_before", "iter_error"}, "delete": {"fail_before", "fail_after"}}[on]
			p.Faults = append(p.Faults, Fault{Call: r.Intn(6*n + 10), Kind: PickOf(r, kind), Arg: int64([]int{0, 101, 120, 400, 3000}[r.Intn(5)]), On: on, N: r.Range(3, 9)})
		}
		p.Variant = "faults"
	} else {
		p.Variant = "fault-free"
	}
	// compaction ladder (40% of the runs): level-1 rounds, then a level-2
	// compaction that has to download its sources from the replica - the place
	// where download faults beyond the retry budget matter.
	if r.Chance(0.4) {
		if len(p.Cfg.LevelMs) < 2 {
			p.Cfg.LevelMs = []int64{3000, 20000}
		}
		for k := 0; k < r.Range(2, 3); k++ {
			p.Ops = append(p.Ops, appOp(genTxn(r, &p.Cfg)), Op{Kind: "ls_sync_wait"}, Op{Kind: "sleep", Ms: p.Cfg.LevelMs[0] + 500}, Op{Kind: "ls_compact", Level: 1})
		}
		if p.Variant == "faults" && r.Chance(0.7) {
			p.Faults = append(p.Faults, Fault{Call: len(p.Ops), Kind: PickOf(r, []string{"mid_error", "short_read"}), Arg: int64([]int{101, 120, 400, 3000}[r.Intn(4)]), On: "open", N: r.Range(4, 12)})
		}
		p.Ops = append(p.Ops, Op{Kind: "sleep", Ms: p.Cfg.LevelMs[1] + 500}, Op{Kind: "ls_compact", Level: 2}, Op{Kind: "ls_l0_retention"}, Op{Kind: "ls_sync_wait"})
	}
	// local state lost across a restart while the replica is ahead, and the
	// listings of the start-up checks fail part-way (15% of the fault runs)
	if p.Variant == "faults" && r.Chance(0.15) {
		p.Variant = "faults-meta-loss"
		for k := r.Range(2, 5); k > 0; k-- {
			p.Ops = append(p.Ops, appOp(genTxn(r, &p.Cfg)), Op{Kind: "ls_sync_wait"})
		}
		p.Ops = append(p.Ops, Op{Kind: "ls_restart", Steps: []Step{{K: "rm_meta"}}},
			Op{Kind: "arm_storm", Mode: "list:iter_error", N: int64(r.Range(1, 3)), Ms: int64(r.Range(0, 3))},
			Op{Kind: "ls_sync"}, Op{Kind: "ls_sync_wait"}, appOp(genTxn(r, &p.Cfg)), Op{Kind: "ls_sync_wait"})
	}
	// fault-free suffix: release application locks, stop faults, catch up.
	p.Ops = append(p.Ops, appOp(Step{K: "hold_rollback"}), appOp(Step{K: "reader_end"}), Op{Kind: "faults_off"},
		Op{Kind: "catch_up", N: 3})
	return p
}

func init() {
	// arm_storm: from the next client call on, the next N calls of one kind get one
	// fault (Mode "<call kind>:<fault kind>", Ms = argument, e.g. items before an
	// iterator error)
	extraOps["arm_storm"] = func(e *Env, op *Op) (string, bool) {
		parts := strings.SplitN(op.Mode, ":", 2)
		if len(parts) != 2 || op.N <= 0 {
			return "noop", false
		}
		e.FS.AddStorm(Fault{Call: e.FS.Calls, Kind: parts[1], Arg: op.Ms, On: parts[0], N: int(op.N)})
		return "ok", false
	}
	extraOps["faults_off"] = func(e *Env, op *Op) (string, bool) {
		e.FS.Disabled = true
		return "ok", false
	}
	// catch_up: up to N SyncAndWait attempts after faults stopped; the first
	// success is an ack. Failing all of them is a bounded-liveness violation.
	extraOps["catch_up"] = func(e *Env, op *Op) (string, bool) {
		// the clause is about what happens once faults have stopped and nothing
		// of the application blocks litestream: make both true here, so that a
		// minimised program that lost its faults_off / hold_rollback ops does not
		// fail for that reason
		e.FS.Disabled = true
		e.FS.Outage = false
		e.App.Do(&Step{K: "hold_rollback"})
		e.App.Do(&Step{K: "reader_end"})
		if e.LS == nil {
			if err := e.startLS(); err != nil {
				return errStr(err), false
			}
		}
		var last error
		for i := int64(0); i < op.N; i++ {
			if last = e.LS.DB.SyncAndWait(context.Background()); last == nil {
				e.Res.Probes["catch_up_attempts"] += int(i) + 1
				return "ok", true
			}
			e.observe("ls")
			time.Sleep(1500 * time.Millisecond)
		}
		if e.Viol == nil {
			v := e.fail("no-catch-up", "storage faults stopped but %d SyncAndWait attempts all failed; last error: %v", op.N, last)
			e.Viol = v
		}
		return errStr(last), false
	}
}

func runC05(t testingT, p *Program) *Result {
	return RunHIST(t, p, func(e *Env) {
		e.OnAck = func(e *Env, i int) *Violation {
			if v := e.checkReplicaAdvanced(); v != nil {
				return v
			}
			return e.checkAckC01(i)
		}
		e.OnClientEnd = func(e *Env, kind string, idx int, err error) *Violation {
			if kind != "write" && kind != "delete" {
				return nil
			}
			e.Res.Checks++
			l0 := e.FS.Listing(0)
			for k := 1; k < len(l0); k++ {
				if l0[k].MinTXID != l0[k-1].MaxTXID+1 {
					v := e.fail("l0-gap-on-replica", "after client call %d (%s) the level-0 files on the replica have a gap: %d then %d", idx, kind, l0[k-1].MaxTXID, l0[k].MinTXID)
					return v
				}
			}
			return nil
		}
		e.AfterOp = func(e *Env, i int, op *Op, res string) *Violation {
			// restorable to a consistent state throughout: sampled after ops that
			// touched the replica while faults were live.
			if e.FS.Disabled || !strings.HasPrefix(op.Kind, "ls_") || len(e.FS.Listing(0)) == 0 {
				return nil
			}
			if (i+int(e.Prog.Seed%3))%3 != 0 {
				return nil
			}
			e.Res.Checks++
			img, err := e.restoreAlone(nil)
			if err != nil {
				// a restore may fail only if nothing restorable was ever completed
				if len(e.Acks) > 0 || e.Res.Probes["restorable_seen"] > 0 {
					return e.fail("replica-not-restorable", "with storage faults in flight the replica stopped being restorable after op %d (%s): %v", i, op.Kind, err)
				}
				return nil
			}
			e.Res.Probes["restorable_seen"]++
			if m := e.matchStates(img, 0, len(e.Led.States)-1); len(m) == 0 {
				return e.fail("replica-inconsistent", "with storage faults in flight a restore after op %d (%s) succeeded but equals no committed state of the source", i, op.Kind)
			}
			return nil
		}
	})
}

// ---- C13: checkpoint policy bounds the WAL; idle database goes silent --------

func genC13(r *Rng, tier string, idx int) *Program {
	p := &Program{Property: "C13", Engine: "HIST"}
	p.Cfg = genConfig(r)
	p.Cfg.AppAutoCkpt = []int{0, 1000}[r.Intn(2)]
	// known finding F8 (threshold 1) is excluded from 70% of the runs
	if idx%10 >= 7 {
		p.Cfg.MinCheckpointPageN = []int{1, 2}[r.Intn(2)]
		p.Variant = "tiny-threshold"
	} else {
		p.Cfg.MinCheckpointPageN = []int{2, 3, 5, 20, 50, 1000}[r.Intn(6)]
	}
	p.Cfg.TruncatePageN = []int{0, 3, 10, 40, 500}[r.Intn(5)]
	if idx%10 == 6 {
		// variant in which the emergency truncate threshold is the lowest one (known finding F14)
		p.Cfg.MinCheckpointPageN = 1000
		p.Cfg.TruncatePageN = []int{3, 10, 40}[r.Intn(3)]
		p.Variant = "truncate-lowest"
	} else if p.Cfg.TruncatePageN != 0 && p.Cfg.TruncatePageN <= p.Cfg.MinCheckpointPageN {
		p.Cfg.TruncatePageN = p.Cfg.MinCheckpointPageN * 4 // F14 excluded from the other 90% of the runs
	}
	p.Cfg.CheckpointMs = []int64{0, 1000, 60000, 3600000}[r.Intn(4)]
	p.Cfg.MaxSyncWALBytes = []int64{0, 1, 3000, 64 << 20}[r.Intn(4)]
	p.Cfg.StepGapMs = []int64{10, 1000, 1500}[r.Intn(3)]
	n := r.Range(5, 40)
	for i := 0; i < n; i++ {
		switch r.Pick([]int{50, 35, 6, 5, 4, 4, 4}) {
		case 5:
			// a reader pins the WAL for a while (the bound is not asserted while it is
			// open, and must hold again after the first sync once it is gone)
			p.Ops = append(p.Ops, appOp(Step{K: "reader_begin"}))
		case 6:
			p.Ops = append(p.Ops, appOp(Step{K: "reader_end"}))
		case 0:
			t := genTxn(r, &p.Cfg)
			p.Ops = append(p.Ops, appOp(t))
		case 1:
			p.Ops = append(p.Ops, Op{Kind: "ls_sync"})
		case 2:
			p.Ops = append(p.Ops, Op{Kind: "ls_sync_wait"})
		case 3:
			p.Ops = append(p.Ops, Op{Kind: "sleep", Ms: []int64{1200, 61000, 3700000}[r.Intn(3)]})
		default:
			p.Ops = append(p.Ops, appOp(Step{K: PickOf(r, []string{"vacuum", "incr_vacuum"}), N: 5}))
		}
	}
	// idle phase: k syncs, the clock advanced past CheckpointInterval each time
	p.Ops = append(p.Ops, appOp(Step{K: "reader_end"}))
	if r.Chance(0.5) {
		// the bound must hold right after the first sync once nothing pins the WAL
		p.Ops = append(p.Ops, Op{Kind: "ls_sync"})
	}
	k := r.Range(6, 25)
	p.Ops = append(p.Ops, Op{Kind: "idle_syncs", N: int64(k), Ms: p.Cfg.CheckpointMs + 1500})
	return p
}

func localL0Count(e *Env) int {
	if e.LS == nil {
		return 0
	}
	ents, _ := os.ReadDir(e.LS.DB.LTXLevelDir(0))
	n := 0
	for _, x := range ents {
		if strings.HasSuffix(x.Name(), ".ltx") {
			n++
		}
	}
	return n
}

func init() {
	extraOps["idle_syncs"] = func(e *Env, op *Op) (string, bool) {
		if e.LS == nil {
			return "noop:down", false
		}
		ctx := context.Background()
		// catch up first: pending application writes are not idle traffic
		if err := e.LS.DB.Sync(ctx); err != nil {
			return errStr(err), false
		}
		e.observe("ls")
		e.restamp()
		// the position (max local TXID) counts LTX files created, independent of retention
		pos0, _ := e.LS.DB.Pos()
		var created []int
		prev := pos0.TXID
		for i := int64(0); i < op.N; i++ {
			time.Sleep(time.Duration(op.Ms) * time.Millisecond)
			e.restamp()
			if err := e.LS.DB.Sync(ctx); err != nil {
				return errStr(err), false
			}
			e.observe("ls")
			e.restamp()
			p, _ := e.LS.DB.Pos()
			created = append(created, int(p.TXID-prev))
			prev = p.TXID
		}
		total, tail := 0, 0
		for i, c := range created {
			total += c
			if i >= 3 {
				tail += c
			}
		}
		e.Res.Probes["idle_syncs"] += int(op.N)
		e.Res.Probes["idle_ltx_created"] += total
		e.Res.Checks++
		if e.Viol == nil && (tail > 0 || total > 3) {
			v := e.fail("idle-not-silent", "application idle: %d syncs created %d more LTX files (%d of them after the third idle sync): per sync %v", op.N, total, tail, created)
			e.Viol = v
		}
		return "ok", false
	}
}

func runC13(t testingT, p *Program) *Result {
	return RunHIST(t, p, func(e *Env) {
		e.AfterOp = func(e *Env, i int, op *Op, res string) *Violation {
			if (op.Kind != "ls_sync" && op.Kind != "ls_sync_wait") || res != "ok" || e.LS == nil {
				return nil
			}
			if e.App.holding || e.App.readerTx {
				return nil
			}
			cfg := &e.Prog.Cfg
			lowest := cfg.MinCheckpointPageN
			tr := cfg.TruncatePageN
			if tr == 0 {
				tr = litestream.DefaultTruncatePageN
			}
			if tr < lowest {
				lowest = tr
			}
			// committed frames: valid frames behind the last commit frame are the
			// spilled pages of a rolled-back transaction, which the next writer
			// overwrites (they do not accumulate).
			valid, frames, err := WALFrameCounts(e.DBPath+"-wal", e.Led.PageSize)
			if err != nil {
				return nil
			}
			if valid > frames {
				e.Res.Probes["dead_spill_frames_seen"]++
			}
			e.Res.Checks++
			e.Res.Probes["wal_bound_checks"]++
			if frames > e.Res.Probes["max_frames_after_sync"] {
				e.Res.Probes["max_frames_after_sync"] = frames
			}
			// fewer frames than the lowest threshold, plus the bookkeeping frame
			if frames >= lowest+1 {
				v := e.fail("wal-not-bounded", "after a successful sync the live WAL generation holds %d frames; lowest checkpoint threshold is %d pages (+1 bookkeeping frame)", frames, lowest)
				v.Facts["frames"] = frames
				v.Facts["lowest"] = lowest
				v.Facts["truncate_is_lowest"] = tr <= cfg.MinCheckpointPageN
				return v
			}
			return nil
		}
	})
}

// ---- C14: litestream never alters application data ---------------------------

func genC14(r *Rng, tier string, idx int) *Program {
	p := genC01(r, tier, idx)
	p.Property = "C14"
	if r.Chance(0.5) && p.Ops[len(p.Ops)-1].Kind != "ls_close" {
		p.Ops = append(p.Ops, Op{Kind: "ls_close"})
	}
	if r.Chance(0.12) {
		// a database that is not in WAL mode yet when litestream first looks at it
		// (litestream switches it; it must stay switched): the first operation is
		// litestream's, and at the end litestream is closed while the application
		// has no connection open
		p.Variant = "found-in-rollback-mode"
		p.Cfg.InitRollbackJournal = true
		p.Ops = append([]Op{{Kind: "ls_sync"}}, p.Ops...)
		if p.Ops[len(p.Ops)-1].Kind == "ls_close" {
			p.Ops = p.Ops[:len(p.Ops)-1]
		}
	}
	return p
}

func runC14(t testingT, p *Program) *Result {
	return RunHIST(t, p, func(e *Env) {
		// between litestream operations litestream holds at most its read
		// transaction: an application write issued then (not interposed inside an
		// operation, the application holding no transaction of its own) must not
		// meet SQLITE_BUSY - it would not without litestream
		e.AfterOp = func(e *Env, i int, op *Op, res string) *Violation {
			if op.Kind == "app" && op.Step != nil && op.Step.K == "txn" && !e.App.holding && strings.HasPrefix(res, "busy") {
				return e.fail("app-locked-out", "an application transaction issued while no litestream operation was in progress failed with SQLITE_BUSY (op %d): litestream keeps a write lock between operations", i)
			}
			return nil
		}
		e.AtEnd = func(e *Env) *Violation {
			// stop litestream (if still up) so the source is quiescent
			if e.LS != nil {
				if e.Prog.Cfg.InitRollbackJournal {
					// the application's last connection goes first: litestream's is
					// then the only one when it closes
					e.App.Do(&Step{K: "hold_rollback"})
					e.App.Do(&Step{K: "reader_end"})
					e.App.Close()
					e.stopLS(context.Background())
					if err := e.App.Open(); err != nil {
						e.Res.Trouble = "reopen app: " + err.Error()
						return nil
					}
					e.Res.Probes["closed_without_app_connection"]++
				} else {
					e.stopLS(context.Background())
				}
			}
			e.App.Do(&Step{K: "hold_rollback"})
			e.App.Do(&Step{K: "reader_end"})
			if len(e.App.Errors) > 0 {
				return e.fail("app-error", "the application hit an unexpected SQLite error while litestream was attached: %s", e.App.Errors[0])
			}
			src, err := SQLiteRecoveredImage(e.DBPath, e.Scratch)
			if err != nil {
				return e.fail("source-unreadable", "source database cannot be recovered by SQLite: %v", err)
			}
			srcPath := filepath.Join(e.Scratch, "src-copy.db")
			os.WriteFile(srcPath, src, 0o644)
			defer os.Remove(srcPath)
			e.Res.Checks++
			if ic, err := IntegrityCheck(src, e.Scratch); err != nil || ic != "ok" {
				return e.fail("source-integrity", "source database fails integrity_check after litestream ran: %v %s", err, ic)
			}
			d1, err := DumpDB(srcPath, true)
			if err != nil {
				return e.fail("source-unreadable", "dump source: %v", err)
			}
			// journal mode + lock table
			if v := e.checkSourceMeta(srcPath); v != nil {
				return v
			}
			// twin: the same committed application steps without litestream
			twinDir := filepath.Join(e.Dir, "twin")
			os.MkdirAll(twinDir, 0o755)
			twinPath := filepath.Join(twinDir, "db")
			// (the twin is always in WAL mode: with a rollback journal the application's
			// own readers would block its writers, which has nothing to do with litestream)
			twinCfg := e.Prog.Cfg
			twinCfg.InitRollbackJournal = false
			ta, err := CreateAppDB(twinPath, &twinCfg, e.Prog.Seed)
			if err != nil {
				e.Res.Trouble = "twin create: " + err.Error()
				return nil
			}
			for i := range e.AppTrace {
				if e.AppTraceRes[i] {
					ta.Do(&e.AppTrace[i])
				}
			}
			ta.Do(&Step{K: "hold_rollback"})
			ta.Do(&Step{K: "reader_end"})
			ta.Close()
			timg, err := SQLiteRecoveredImage(twinPath, e.Scratch)
			if err != nil {
				e.Res.Trouble = "twin recover: " + err.Error()
				return nil
			}
			tw := filepath.Join(e.Scratch, "twin-copy.db")
			os.WriteFile(tw, timg, 0o644)
			defer os.Remove(tw)
			d2, err := DumpDB(tw, true)
			if err != nil {
				e.Res.Trouble = "twin dump: " + err.Error()
				return nil
			}
			e.Res.Probes["twin_compares"]++
			e.Res.Probes["twin_steps"] += len(e.AppTrace)
			if d1 != d2 {
				return e.fail("data-differs", "user-visible schema/rows of the source differ from the same history run without litestream: %s", firstDiff(d1, d2))
			}
			return nil
		}
	})
}

func firstDiff(a, b string) string {
	la, lb := strings.Split(a, "\n"), strings.Split(b, "\n")
	for i := 0; i < len(la) && i < len(lb); i++ {
		if la[i] != lb[i] {
			x, y := la[i], lb[i]
			if len(x) > 120 {
				x = x[:120]
			}
			if len(y) > 120 {
				y = y[:120]
			}
			return fmt.Sprintf("line %d: with=%q without=%q", i, x, y)
		}
	}
	return fmt.Sprintf("length %d vs %d lines", len(la), len(lb))
}

func init() {
	lvl := func(r *Result, k string) int { return r.Probes[k] }
	register(&Prop{ID: "C05", Engine: "HIST", Gen: genC05, Run: runC05, Nontrivial: func(r *Result) bool { return r.Acks > 0 }})
	register(&Prop{ID: "C13", Engine: "HIST", Gen: genC13, Run: runC13, Nontrivial: func(r *Result) bool { return lvl(r, "wal_bound_checks") > 0 && lvl(r, "idle_syncs") > 0 }})
	register(&Prop{ID: "C14", Engine: "HIST", Gen: genC14, Run: runC14, Nontrivial: func(r *Result) bool { return lvl(r, "twin_compares") > 0 && lvl(r, "app:commits") > 0 }})
}
