package sim

import (
	"bytes"
	"fmt"
	"os"
	"path/filepath"
	"strings"
	"time"

	"github.com/benbjohnson/litestream"
	"github.com/superfly/ltx"
)

// C16 — follow-mode restore converges and resumes correctly after being killed.
//
// Two node processes: the primary (replicate mode, never killed here) and the
// follower (Restore with Follow, killed before hooked FS mutation #k in one of
// its incarnations). The parent owns the application and the oracles.

func genC16(r *Rng, tier string, idx int) *Program {
	p := &Program{Property: "C16", Engine: "NODE"}
	sr := r
	if tier == "thorough" {
		sr = NewRng(RunSeed(uint64(idx/256), "C16-scenario", 0))
	}
	p.Cfg = genConfig(sr)
	if p.Cfg.PageSize > 16384 {
		p.Cfg.PageSize = 4096
	}
	p.Cfg.LevelMs = []int64{2000, 8000}[:sr.Range(1, 2)]
	p.Cfg.L0RetentionMs = []int64{1, 1500, 300000}[sr.Pick([]int{4, 3, 2})]
	p.Cfg.SnapshotRetentionMs = 24 * 3600 * 1000
	p.Cfg.RetentionEnabled = true
	p.Cfg.StepGapMs = 1000
	stages := sr.Range(2, 5)
	if sr.Chance(0.4) {
		// long follower outage: while the follower is down the primary compacts
		// into every level, snapshots, expires snapshots (which prunes the lower
		// levels by TXID) and expires level-0 files, so that the follower's gap
		// has to be bridged from more than one level when it comes back
		p.Variant = "outage"
		p.Cfg.LevelMs = []int64{2000, 8000}
		p.Cfg.SnapshotRetentionMs = []int64{3000, 12000}[sr.Intn(2)]
		p.Cfg.L0RetentionMs = []int64{1, 1500}[sr.Intn(2)]
		txns := func(n int) {
			for i := 0; i < n; i++ {
				p.Ops = append(p.Ops, appOp(genTxn(sr, &p.Cfg)), Op{Kind: "ls_sync_wait"})
			}
		}
		txns(sr.Range(1, 4))
		p.Ops = append(p.Ops, Op{Kind: "follow", N: int64(sr.Range(0, 2)), Ms: 500})
		for round := sr.Range(1, 3); round > 0; round-- {
			for k := sr.Range(1, 3); k > 0; k-- {
				txns(sr.Range(1, 4))
				p.Ops = append(p.Ops, Op{Kind: "sleep", Ms: 2500}, Op{Kind: "ls_compact", Level: 1})
			}
			if sr.Chance(0.8) {
				p.Ops = append(p.Ops, Op{Kind: "sleep", Ms: 9000}, Op{Kind: "ls_compact", Level: 2})
			}
			if sr.Chance(0.8) {
				p.Ops = append(p.Ops, Op{Kind: "ls_compact", Level: 9})
			}
			if sr.Chance(0.7) {
				p.Ops = append(p.Ops, Op{Kind: "sleep", Ms: 15000}, Op{Kind: "ls_snap_retention"})
			}
			if sr.Chance(0.3) {
				p.Ops = append(p.Ops, Op{Kind: "follow", N: int64(sr.Range(0, 2)), Ms: 500})
			}
		}
		for k := sr.Range(1, 3); k > 0; k-- {
			txns(sr.Range(1, 4))
			if sr.Chance(0.8) {
				p.Ops = append(p.Ops, Op{Kind: "sleep", Ms: 2500}, Op{Kind: "ls_compact", Level: 1})
			}
		}
		txns(sr.Range(0, 3))
		p.Ops = append(p.Ops, Op{Kind: "sleep", Ms: 2500}, Op{Kind: "ls_l0_retention"})
		p.Ops = append(p.Ops, Op{Kind: "follow", N: int64(sr.Range(0, 3)), Ms: []int64{500, 1000}[sr.Intn(2)]})
		stages = 0
	}
	for s := 0; s < stages; s++ {
		n := sr.Range(2, 9)
		for i := 0; i < n; i++ {
			switch sr.Pick([]int{40, 25, 12, 4, 8, 5}) {
			case 0:
				st := genAppStep(sr, &p.Cfg)
				if st.K == "hold_begin" || st.K == "reader_begin" {
					st = genTxn(sr, &p.Cfg)
				}
				p.Ops = append(p.Ops, appOp(st))
			case 1:
				p.Ops = append(p.Ops, Op{Kind: "ls_sync_wait"})
			case 2:
				p.Ops = append(p.Ops, Op{Kind: "ls_compact", Level: sr.Range(1, len(p.Cfg.LevelMs))})
			case 3:
				p.Ops = append(p.Ops, Op{Kind: "ls_compact", Level: 9})
			case 4:
				p.Ops = append(p.Ops, Op{Kind: "ls_l0_retention"})
			default:
				p.Ops = append(p.Ops, Op{Kind: "sleep", Ms: []int64{2500, 9000}[sr.Intn(2)]})
			}
		}
		p.Ops = append(p.Ops, Op{Kind: "ls_sync_wait"})
		// a follower incarnation: N ticks, then cancelled (or killed)
		p.Ops = append(p.Ops, Op{Kind: "follow", N: int64(sr.Range(0, 3)), Ms: []int64{500, 1000}[sr.Intn(2)]})
	}
	p.Params = map[string]int64{}
	if tier == "thorough" {
		p.Params["kill"] = int64(idx%64 + 1)
		p.Params["kill_inc"] = int64((idx / 64) % 4)
	} else {
		p.Params["kill_permille"] = int64(r.Intn(1000))
		nf := 0
		for _, op := range p.Ops {
			if op.Kind == "follow" {
				nf++
			}
		}
		p.Params["kill_inc"] = int64(r.Intn(nf + 1))
	}
	return p
}

func maskFollow(b []byte) []byte {
	c := append([]byte(nil), b...)
	if len(c) >= 28 {
		c[18], c[19] = 0, 0
		c[24], c[25], c[26], c[27] = 0, 0, 0, 0
	}
	return c
}

type c16run struct {
	fsPerInc []int
	killed   bool
}

func runC16(t testingT, p *Program) *Result {
	res := &Result{Seed: p.Seed, Probes: map[string]int{}, FaultsHit: map[string]int{}}
	wall := time.Now()
	kill := int(p.Params["kill"])
	inc := int(p.Params["kill_inc"])
	if kill == 0 {
		r0 := runC16Once(p, -1, 0, res)
		if res.Trouble != "" || res.Violation != nil {
			res.WallMs = time.Since(wall).Milliseconds()
			return res
		}
		res.Probes["dry_runs"]++
		if inc < len(r0.fsPerInc) && r0.fsPerInc[inc] > 0 {
			kill = 1 + int(p.Params["kill_permille"])*r0.fsPerInc[inc]/1000
		}
	}
	if kill > 0 {
		runC16Once(p, inc, kill, res)
	}
	res.WallMs = time.Since(wall).Milliseconds()
	return res
}

func runC16Once(p *Program, killInc, killAt int, res *Result) *c16run {
	out := &c16run{}
	base := os.Getenv("VERIF_TMP")
	if base == "" {
		base = "/dev/shm"
	}
	dir := filepath.Join(base, fmt.Sprintf("verif-%d-%d", os.Getpid(), runCounter.Add(1)))
	os.RemoveAll(dir)
	os.MkdirAll(dir, 0o755)
	defer os.RemoveAll(dir)
	e := &Env{Prog: p, Dir: dir, DBPath: filepath.Join(dir, "db"), RepDir: filepath.Join(dir, "replica"),
		Scratch: filepath.Join(dir, "scratch"), Res: res, siteCount: map[string]int{}, SitesSeen: map[string]int{}}
	os.MkdirAll(e.Scratch, 0o755)
	e.Probe = newProbeHandler()
	app, err := CreateAppDB(e.DBPath, &p.Cfg, p.Seed)
	if err != nil {
		res.Trouble = "create app db: " + err.Error()
		return out
	}
	e.App = app
	defer func() { e.App.Close() }()
	if e.Led, err = NewLedger(e.DBPath); err != nil {
		res.Trouble = "ledger: " + err.Error()
		return out
	}
	primary, _, err := StartNode(&NodeInit{Dir: dir, Cfg: p.Cfg, Mode: "replicate"})
	if err != nil {
		res.Trouble = e.san(err.Error())
		return out
	}
	defer func() { primary.Quit() }()
	followOut := filepath.Join(dir, "follower.db")
	tag := fmt.Sprintf("inc=%d,k=%d", killInc, killAt)
	var fclock int64
	lastSidecar := ltx.TXID(0)
	incN := 0
	fail := func(v *Violation) {
		v.Facts["kill_inc"] = killInc
		v.Facts["kill_at"] = killAt
		res.Violation = v
		res.Events = append(res.Events, e.Events...)
	}
	// checkFollower: follower content == Restore(TXID=sidecar), masks applied.
	checkFollower := func(when string, requireLatest bool) *Violation {
		sc, err := litestream.ReadTXIDFile(followOut)
		if err != nil {
			return e.fail("sidecar-unreadable", "%s: the TXID sidecar does not parse: %v", when, err)
		}
		if sc == 0 {
			if fileExists(followOut) {
				return e.fail("follower-without-sidecar", "%s: follower database exists without a TXID sidecar", when)
			}
			return nil
		}
		if sc < lastSidecar {
			return e.fail("sidecar-regressed", "%s: sidecar TXID went from %d back to %d", when, lastSidecar, sc)
		}
		lastSidecar = sc
		got, err := os.ReadFile(followOut)
		if err != nil {
			return e.fail("follower-missing", "%s: sidecar says TXID %d but the follower database cannot be read: %v", when, sc, err)
		}
		e.Res.Checks++
		want, err := e.restoreAlone(func(o *litestream.RestoreOptions) { o.TXID = sc })
		if err != nil {
			// the TXID may no longer be restorable on the primary replica (retention): compare with latest if equal position
			e.Res.Probes["follower_txid_not_restorable"]++
		} else if !bytes.Equal(maskFollow(got), maskFollow(want)) {
			d := fmt.Sprintf("sizes %d vs %d", len(got), len(want))
			if len(got) == len(want) {
				ps := e.Led.PageSize
				mg, mw := maskFollow(got), maskFollow(want)
				for pg := 0; pg*ps < len(got); pg++ {
					if !bytes.Equal(mg[pg*ps:(pg+1)*ps], mw[pg*ps:(pg+1)*ps]) {
						d = fmt.Sprintf("page %d differs", pg+1)
						break
					}
				}
			}
			v := e.fail("follower-content", "%s: follower database (sidecar TXID %d) differs from Restore(TXID=%d): %s", when, sc, sc, d)
			return v
		}
		if requireLatest {
			max := e.replicaMaxTXIDAnyLevel()
			if sc != max {
				return e.fail("follower-not-converged", "%s: replica stopped changing at TXID %d but the follower is at %d (%s)", when, max, sc, listStr(e.listingOf(e.fileClient())))
			}
		}
		return nil
	}
	runFollower := func(ticks int, tickMs int64, k int, final bool) bool {
		if e.replicaMaxTXIDAnyLevel() == 0 {
			e.Res.Probes["follower_skipped_empty_replica"]++
			return true // nothing replicated yet: there is nothing to follow
		}
		incIdx := incN
		incN++
		init := &NodeInit{Dir: dir, Cfg: p.Cfg, Mode: "follow", FollowOut: followOut, FollowMs: tickMs, KillAt: k, ClockMs: fclock}
		f, resp, err := StartNode(init)
		if err != nil || resp == nil {
			if f != nil && f.Killed {
				out.killed = true
				res.Probes["kills"]++
				kd := firstLine(f.Stderr())
				res.FaultsHit["kill:"+killSite(kd)]++
				e.event("[%s] follower inc %d KILLED at start (%s)", tag, incIdx, e.san(kd))
				return true
			}
			res.Trouble = e.san(fmt.Sprintf("follower did not start: %v", err))
			return false
		}
		alive := true
		for tk := 0; tk < ticks+1 && alive; tk++ {
			r := f.Do(Op{Kind: "advance", Ms: tickMs + 1})
			fclock += tickMs + 1
			if r == nil {
				alive = false
				break
			}
			if strings.HasPrefix(r.Res, "follow-ended") {
				// Restore(Follow) returned on its own: only acceptable as an error-free stop
				e.event("[%s] follower inc %d ended: %s", tag, incIdx, r.Res)
				v := e.fail("follower-needs-repair", "follower incarnation %d stopped by itself: %s", incIdx, r.Res)
				v.Facts["after_kill"] = out.killed
				fail(v)
				f.Quit()
				return false
			}
			for len(out.fsPerInc) <= incIdx {
				out.fsPerInc = append(out.fsPerInc, 0)
			}
			out.fsPerInc[incIdx] = r.FSCount
			if v := checkFollower(fmt.Sprintf("incarnation %d tick %d", incIdx, tk), false); v != nil {
				fail(v)
				f.Quit()
				return false
			}
		}
		if !alive {
			f.Wait()
			if f.Killed {
				out.killed = true
				res.Probes["kills"]++
				kd := firstLine(f.Stderr())
				res.FaultsHit["kill:"+killSite(kd)]++
				e.event("[%s] follower inc %d KILLED (%s)", tag, incIdx, e.san(kd))
				// sidecar must still parse and never regress, even right after the kill
				if sc, err := litestream.ReadTXIDFile(followOut); err != nil {
					fail(e.fail("sidecar-unreadable", "after the kill the TXID sidecar does not parse: %v", err))
					return false
				} else if sc != 0 && sc < lastSidecar {
					fail(e.fail("sidecar-regressed", "after the kill the sidecar TXID went from %d back to %d", lastSidecar, sc))
					return false
				}
				return true
			}
			res.Trouble = e.san("follower died unexpectedly: " + tail(f.Stderr(), 1200))
			return false
		}
		if final {
			if v := checkFollower("after the primary stopped", true); v != nil {
				fail(v)
				f.Quit()
				return false
			}
		}
		f.Quit()
		e.event("[%s] follower inc %d done sidecar=%d fs=%d", tag, incIdx, lastSidecar, out.fsPerInc[incIdx])
		return true
	}
	for i := range p.Ops {
		op := &p.Ops[i]
		e.curOp = i
		switch op.Kind {
		case "app":
			r := e.appDo(op.Step)
			e.observe("app")
			e.event("[%s] op%d app %s -> %s", tag, i, op.Step.K, r)
		case "follow":
			k := 0
			if incN == killInc {
				k = killAt
			}
			if !runFollower(int(op.N), op.Ms, k, false) {
				return out
			}
		case "sleep":
			primary.Do(Op{Kind: "advance", Ms: op.Ms})
		default:
			e.observe("ls")
			resp := primary.Do(*op)
			e.observe("ls")
			if resp == nil {
				res.Trouble = e.san("primary died: " + tail(primary.Stderr(), 1200))
				return out
			}
			e.event("[%s] op%d %s -> %s pos=%d", tag, i, op.Kind, resp.Res, resp.Pos)
			primary.Do(Op{Kind: "advance", Ms: p.Cfg.StepGapMs})
		}
		if res.Violation != nil || res.Trouble != "" {
			return out
		}
	}
	// the replica no longer changes: the follower must converge within 3 further ticks
	if !runFollower(3, 1000, 0, true) {
		return out
	}
	res.Ops += len(p.Ops)
	res.Probes["follower_incarnations"] += incN
	res.Events = append(res.Events, e.Events...)
	return out
}

func (e *Env) replicaMaxTXIDAnyLevel() ltx.TXID {
	var m ltx.TXID
	c := e.fileClient()
	for lv := 0; lv <= litestream.SnapshotLevel; lv++ {
		itr, err := c.LTXFiles(ctxBG, lv, 0, false)
		if err != nil {
			continue
		}
		for itr.Next() {
			if itr.Item().MaxTXID > m {
				m = itr.Item().MaxTXID
			}
		}
		itr.Close()
	}
	return m
}

func init() {
	register(&Prop{ID: "C16", Engine: "NODE", Gen: genC16, Run: runC16, Nontrivial: func(r *Result) bool { return r.Probes["kills"] > 0 }})
}

func (e *Env) listingOf(c litestream.ReplicaClient) []pfile {
	var files []pfile
	for lv := 0; lv <= litestream.SnapshotLevel; lv++ {
		itr, err := c.LTXFiles(ctxBG, lv, 0, false)
		if err != nil {
			continue
		}
		for itr.Next() {
			fi := itr.Item()
			files = append(files, pfile{fi.Level, fi.MinTXID, fi.MaxTXID, fi.CreatedAt})
		}
		itr.Close()
	}
	return files
}
