package sim

import (
	"context"
	"database/sql"
	"fmt"
	"math/rand/v2"
	"os"
	"strings"

	_ "modernc.org/sqlite"
)

// App is the simulated application: a SQLite client issuing generated,
// fully explicit statements. All values come from the statement's own seed.
type App struct {
	Path       string
	AutoCkpt   int
	CachePages int
	db         *sql.DB
	conn       *sql.Conn // main connection
	reader     *sql.Conn // long reader
	readerTx   bool
	hold       *sql.Conn // held write transaction
	holding    bool
	Log        []string // result of each step (for determinism diff)
	Commits    int
	Busy       int
	Errors     []string // unexpected errors
}

func (a *App) dsn() string {
	s := fmt.Sprintf("file:%s?_pragma=busy_timeout(0)&_pragma=wal_autocheckpoint(%d)", a.Path, a.AutoCkpt)
	if a.CachePages > 0 {
		s += fmt.Sprintf("&_pragma=cache_size(%d)", a.CachePages)
	}
	return s
}

// CreateDB creates the database with the configured page size and schema in
// rollback mode, fills it and switches to WAL.
func CreateAppDB(path string, cfg *Config, seed uint64) (*App, error) {
	a := &App{Path: path, AutoCkpt: cfg.AppAutoCkpt, CachePages: cfg.AppCachePages}
	db, err := sql.Open("sqlite", "file:"+path+"?_pragma=busy_timeout(0)")
	if err != nil {
		return nil, err
	}
	db.SetMaxOpenConns(1)
	ctx := context.Background()
	stmts := []string{
		fmt.Sprintf("PRAGMA page_size=%d", cfg.PageSize),
		fmt.Sprintf("PRAGMA auto_vacuum=%d", cfg.AutoVacuum),
	}
	for i := 0; i < cfg.Tables; i++ {
		stmts = append(stmts, ctabSQL(i))
		if i%2 == 0 {
			stmts = append(stmts, cidxSQL(i))
		}
	}
	for _, s := range stmts {
		if _, err := db.ExecContext(ctx, s); err != nil {
			db.Close()
			return nil, fmt.Errorf("create app db: %s: %w", s, err)
		}
	}
	if cfg.InitRows > 0 {
		tx, err := db.Begin()
		if err != nil {
			return nil, err
		}
		for i := 0; i < cfg.InitRows; i++ {
			t := i % max(cfg.Tables, 1)
			if _, err := tx.Exec(fmt.Sprintf("INSERT OR REPLACE INTO t%d(id,k,v) VALUES(?,?,?)", t), i, i*7, payload(seed, i, cfg.InitRowSize)); err != nil {
				tx.Rollback()
				db.Close()
				return nil, err
			}
		}
		if err := tx.Commit(); err != nil {
			return nil, err
		}
	}
	var mode string
	if cfg.InitRollbackJournal {
		// left in rollback mode
	} else if err := db.QueryRow("PRAGMA journal_mode=wal").Scan(&mode); err != nil || mode != "wal" {
		db.Close()
		return nil, fmt.Errorf("journal_mode=wal: %v %q", err, mode)
	}
	if err := db.Close(); err != nil {
		return nil, err
	}
	if ps, err := readDBPageSize(path); err != nil || ps != cfg.PageSize {
		return nil, fmt.Errorf("page size %d != configured %d (%v)", ps, cfg.PageSize, err)
	}
	if err := a.Open(); err != nil {
		return nil, err
	}
	return a, nil
}

func ctabSQL(i int) string {
	return fmt.Sprintf("CREATE TABLE IF NOT EXISTS t%d (id INTEGER PRIMARY KEY, k INTEGER, v BLOB)", i)
}
func cidxSQL(i int) string {
	return fmt.Sprintf("CREATE INDEX IF NOT EXISTS i%d ON t%d(k)", i, i)
}

func payload(seed uint64, id, sz int) []byte {
	if sz <= 0 {
		return []byte{}
	}
	r := rand.New(rand.NewPCG(seed, uint64(id)+1))
	b := make([]byte, sz)
	for i := 0; i+8 <= sz; i += 8 {
		v := r.Uint64()
		for j := 0; j < 8; j++ {
			b[i+j] = byte(v >> (8 * j))
		}
	}
	return b
}

func (a *App) Open() error {
	if a.db != nil {
		return nil
	}
	db, err := sql.Open("sqlite", a.dsn())
	if err != nil {
		return err
	}
	a.db = db
	c, err := db.Conn(context.Background())
	if err != nil {
		db.Close()
		a.db = nil
		return err
	}
	a.conn = c
	return nil
}

// Close closes every application connection.
func (a *App) Close() error {
	if a.db == nil {
		return nil
	}
	ctx := context.Background()
	if a.reader != nil {
		if a.readerTx {
			a.reader.ExecContext(ctx, "ROLLBACK")
		}
		a.reader.Close()
		a.reader, a.readerTx = nil, false
	}
	if a.hold != nil {
		if a.holding {
			a.hold.ExecContext(ctx, "ROLLBACK")
		}
		a.hold.Close()
		a.hold, a.holding = nil, false
	}
	if a.conn != nil {
		a.conn.Close()
		a.conn = nil
	}
	err := a.db.Close()
	a.db = nil
	return err
}

func isBusy(err error) bool {
	if err == nil {
		return false
	}
	s := err.Error()
	return strings.Contains(s, "database is locked") || strings.Contains(s, "SQLITE_BUSY") || strings.Contains(s, "database table is locked")
}

func isBenign(err error) bool {
	if err == nil {
		return true
	}
	s := err.Error()
	return isBusy(err) || strings.Contains(s, "no such table") || strings.Contains(s, "no such index") ||
		strings.Contains(s, "already exists") || strings.Contains(s, "cannot VACUUM") ||
		strings.Contains(s, "cannot start a transaction within a transaction") ||
		strings.Contains(s, "no transaction is active")
}

func (a *App) note(step string, err error) string {
	res := "ok"
	if err != nil {
		if isBusy(err) {
			a.Busy++
			res = "busy"
		} else if isBenign(err) {
			res = "noop:" + shortErr(err)
		} else {
			res = "ERR:" + err.Error()
			a.Errors = append(a.Errors, step+": "+err.Error())
		}
	}
	a.Log = append(a.Log, step+"="+res)
	return res
}

func shortErr(err error) string {
	s := err.Error()
	if len(s) > 60 {
		s = s[:60]
	}
	return s
}

func (a *App) execStmts(ctx context.Context, c *sql.Conn, stmts []Stmt) error {
	for _, s := range stmts {
		var err error
		switch s.K {
		case "ins":
			for i := 0; i < s.N; i++ {
				id := s.Key + i
				if _, err = c.ExecContext(ctx, fmt.Sprintf("INSERT OR REPLACE INTO t%d(id,k,v) VALUES(?,?,?)", s.T), id, int64(s.Seed%1000)+int64(id), payload(s.Seed, id, s.Sz)); err != nil {
					break
				}
			}
		case "upd":
			_, err = c.ExecContext(ctx, fmt.Sprintf("UPDATE t%d SET k=k+1, v=? WHERE id>=? AND id<?", s.T), payload(s.Seed, s.Key, s.Sz), s.Key, s.Key+s.N)
		case "del":
			_, err = c.ExecContext(ctx, fmt.Sprintf("DELETE FROM t%d WHERE id>=? AND id<?", s.T), s.Key, s.Key+s.N)
		case "ctab":
			_, err = c.ExecContext(ctx, ctabSQL(s.T))
		case "dtab":
			_, err = c.ExecContext(ctx, fmt.Sprintf("DROP TABLE IF EXISTS t%d", s.T))
		case "cidx":
			_, err = c.ExecContext(ctx, cidxSQL(s.T))
		case "didx":
			_, err = c.ExecContext(ctx, fmt.Sprintf("DROP INDEX IF EXISTS i%d", s.T))
		default:
			err = fmt.Errorf("unknown stmt kind %q", s.K)
		}
		if err != nil {
			if strings.Contains(err.Error(), "no such table") || strings.Contains(err.Error(), "no such index") {
				continue // statement is a no-op when its table is gone
			}
			return err
		}
	}
	return nil
}

// Do executes one application step and returns its result string.
func (a *App) Do(st *Step) string {
	ctx := context.Background()
	if a.db == nil && st.K != "conn_cycle" && st.K != "conn_open" {
		return a.note(st.K, fmt.Errorf("no transaction is active (app closed)"))
	}
	switch st.K {
	case "txn":
		if _, err := a.conn.ExecContext(ctx, "BEGIN IMMEDIATE"); err != nil {
			return a.note("txn.begin", err)
		}
		err := a.execStmts(ctx, a.conn, st.Stmts)
		if err != nil || st.Rollback {
			_, rerr := a.conn.ExecContext(ctx, "ROLLBACK")
			if err == nil {
				err = rerr
			}
			if st.Rollback && err == nil {
				return a.note("txn.rollback", nil)
			}
			return a.note("txn.exec", err)
		}
		if _, err := a.conn.ExecContext(ctx, "COMMIT"); err != nil {
			a.conn.ExecContext(ctx, "ROLLBACK")
			return a.note("txn.commit", err)
		}
		a.Commits++
		return a.note("txn", nil)
	case "vacuum":
		_, err := a.conn.ExecContext(ctx, "VACUUM")
		return a.note("vacuum", err)
	case "incr_vacuum":
		_, err := a.conn.ExecContext(ctx, fmt.Sprintf("PRAGMA incremental_vacuum(%d)", st.N))
		return a.note("incr_vacuum", err)
	case "ckpt":
		var x, y, z int
		err := a.conn.QueryRowContext(ctx, "PRAGMA wal_checkpoint("+st.Mode+")").Scan(&x, &y, &z)
		r := a.note("ckpt."+st.Mode, err)
		if err == nil {
			return fmt.Sprintf("%s(%d,%d,%d)", r, x, y, z)
		}
		return r
	case "conn_cycle":
		err := a.Close()
		if err == nil {
			err = a.Open()
		}
		return a.note("conn_cycle", err)
	case "conn_close":
		return a.note("conn_close", a.Close())
	case "conn_open":
		return a.note("conn_open", a.Open())
	case "reader_begin":
		if a.reader == nil {
			c, err := a.db.Conn(ctx)
			if err != nil {
				return a.note("reader_begin", err)
			}
			a.reader = c
		}
		if a.readerTx {
			return a.note("reader_begin", nil)
		}
		if _, err := a.reader.ExecContext(ctx, "BEGIN"); err != nil {
			return a.note("reader_begin", err)
		}
		var n int
		err := a.reader.QueryRowContext(ctx, "SELECT count(*) FROM sqlite_master").Scan(&n)
		if err != nil {
			a.reader.ExecContext(ctx, "ROLLBACK")
			return a.note("reader_begin", err)
		}
		a.readerTx = true
		return a.note("reader_begin", nil)
	case "reader_end":
		if a.reader != nil && a.readerTx {
			_, err := a.reader.ExecContext(ctx, "ROLLBACK")
			a.readerTx = false
			return a.note("reader_end", err)
		}
		return a.note("reader_end", nil)
	case "hold_begin":
		if a.holding {
			return a.note("hold_begin", nil)
		}
		if a.hold == nil {
			c, err := a.db.Conn(ctx)
			if err != nil {
				return a.note("hold_begin", err)
			}
			a.hold = c
		}
		if _, err := a.hold.ExecContext(ctx, "BEGIN IMMEDIATE"); err != nil {
			return a.note("hold_begin", err)
		}
		if err := a.execStmts(ctx, a.hold, st.Stmts); err != nil {
			a.hold.ExecContext(ctx, "ROLLBACK")
			return a.note("hold_begin.exec", err)
		}
		a.holding = true
		return a.note("hold_begin", nil)
	case "hold_more":
		if !a.holding {
			return a.note("hold_more", nil)
		}
		if err := a.execStmts(ctx, a.hold, st.Stmts); err != nil {
			a.hold.ExecContext(ctx, "ROLLBACK")
			a.holding = false
			return a.note("hold_more.exec", err)
		}
		return a.note("hold_more", nil)
	case "hold_commit":
		if !a.holding {
			return a.note("hold_commit", nil)
		}
		a.holding = false
		if _, err := a.hold.ExecContext(ctx, "COMMIT"); err != nil {
			a.hold.ExecContext(ctx, "ROLLBACK")
			return a.note("hold_commit", err)
		}
		a.Commits++
		return a.note("hold_commit", nil)
	case "hold_rollback":
		if !a.holding {
			return a.note("hold_rollback", nil)
		}
		a.holding = false
		_, err := a.hold.ExecContext(ctx, "ROLLBACK")
		return a.note("hold_rollback", err)
	}
	return a.note(st.K, fmt.Errorf("unknown step kind %q", st.K))
}

// Dump returns an ordered logical dump of the user-visible schema and rows.
func DumpDB(path string, skipInternal bool) (string, error) {
	db, err := sql.Open("sqlite", "file:"+path+"?_pragma=busy_timeout(0)")
	if err != nil {
		return "", err
	}
	defer db.Close()
	db.SetMaxOpenConns(1)
	var sb strings.Builder
	rows, err := db.Query("SELECT type,name,tbl_name,COALESCE(sql,'') FROM sqlite_master ORDER BY type,name")
	if err != nil {
		return "", err
	}
	var tables []string
	for rows.Next() {
		var ty, name, tbl, sq string
		if err := rows.Scan(&ty, &name, &tbl, &sq); err != nil {
			rows.Close()
			return "", err
		}
		if skipInternal && strings.HasPrefix(name, "_litestream_") {
			continue
		}
		fmt.Fprintf(&sb, "S|%s|%s|%s|%s\n", ty, name, tbl, sq)
		if ty == "table" {
			tables = append(tables, name)
		}
	}
	rows.Close()
	for _, t := range tables {
		r2, err := db.Query(fmt.Sprintf("SELECT id,k,hex(v) FROM %s ORDER BY id", t))
		if err != nil {
			fmt.Fprintf(&sb, "T|%s|unreadable:%v\n", t, err)
			continue
		}
		for r2.Next() {
			var id int64
			var k sql.NullInt64
			var v sql.NullString
			if err := r2.Scan(&id, &k, &v); err != nil {
				r2.Close()
				return "", err
			}
			fmt.Fprintf(&sb, "R|%s|%d|%d|%s\n", t, id, k.Int64, v.String)
		}
		r2.Close()
	}
	return sb.String(), nil
}

func fileExists(p string) bool { _, err := os.Stat(p); return err == nil }
