package sim

import (
	"fmt"
	"sync"
	"testing/synctest"
	"time"
)

// Sched is the seeded scheduler of the CONC engines. Task goroutines run inside
// one synctest bubble; exactly one runs at a time. A task runs until it parks at
// a yield point, blocks durably or finishes (detected with synctest.Wait). Then
// the scheduler consumes the next value of the choice stream to pick the next
// parked task or a clock advance. The choice stream is program data, so a run is
// a pure function of (program, code).

type Task struct {
	Name   string
	ID     int
	gate   chan struct{}
	parked bool
	site   string
	done   bool
	s      *Sched
}

type Sched struct {
	Tasks    []*Task
	Choices  []int // choice stream (program data)
	pos      int
	Trace    []string // decisions taken (event log)
	Steps    int
	MaxSteps int
	Advances []time.Duration // clock-advance options offered at every decision
	OnStep   func() error    // invariant evaluated after every step
	Stalled  bool
	byGID    map[uint64]*Task
	mu       sync.Mutex
}

func NewSched(choices []int) *Sched {
	return &Sched{Choices: choices, MaxSteps: 2000, byGID: map[uint64]*Task{}}
}

func (s *Sched) next(n int) int {
	if n <= 0 {
		return 0
	}
	v := 0
	if s.pos < len(s.Choices) {
		v = s.Choices[s.pos]
	}
	s.pos++
	if v < 0 {
		v = -v
	}
	return v % n
}

// Go starts a task. The task starts parked at site "start".
func (s *Sched) Go(name string, fn func(t *Task)) *Task {
	t := &Task{Name: name, ID: len(s.Tasks), gate: make(chan struct{}), s: s, parked: true, site: "start"}
	s.Tasks = append(s.Tasks, t)
	go func() {
		s.mu.Lock()
		s.byGID[goid()] = t
		s.mu.Unlock()
		<-t.gate
		defer func() { t.done = true; t.parked = false }()
		fn(t)
	}()
	return t
}

// Yield parks the calling task until the scheduler grants it again.
func (t *Task) Yield(site string) {
	t.site = site
	t.parked = true
	<-t.gate
}

// TaskOf returns the task of the calling goroutine, if it is one.
func (s *Sched) TaskOf() *Task {
	s.mu.Lock()
	defer s.mu.Unlock()
	return s.byGID[goid()]
}

// Run drives the tasks until all are done, the step budget is exhausted or
// nothing can make progress.
func (s *Sched) Run() error {
	for s.Steps = 0; s.Steps < s.MaxSteps; s.Steps++ {
		synctest.Wait()
		var ready []*Task
		alive := 0
		for _, t := range s.Tasks {
			if t.done {
				continue
			}
			alive++
			if t.parked {
				ready = append(ready, t)
			}
		}
		if alive == 0 {
			return nil
		}
		n := len(ready) + len(s.Advances)
		if n == 0 {
			s.Stalled = true
			return fmt.Errorf("no task can run: %d alive, none parked, no clock advance offered", alive)
		}
		k := s.next(n)
		if k < len(ready) {
			t := ready[k]
			s.Trace = append(s.Trace, fmt.Sprintf("run %s@%s", t.Name, t.site))
			t.parked = false
			t.gate <- struct{}{}
		} else {
			d := s.Advances[k-len(ready)]
			s.Trace = append(s.Trace, fmt.Sprintf("clock +%v", d))
			time.Sleep(d)
		}
		if s.OnStep != nil {
			synctest.Wait()
			if err := s.OnStep(); err != nil {
				return err
			}
		}
	}
	return nil
}
