package sim

import (
	"bytes"
	"fmt"
	"os"
	"runtime"
	"strings"
	"sync"
	"syscall"
	"testing/synctest"
	"time"
)

// Sched is the seeded scheduler of the CONC engines. Task goroutines run inside
// one synctest bubble; exactly one runs at a time. A task runs until it parks at
// a yield point, blocks durably or finishes. Then the scheduler consumes the next
// value of the choice stream to pick the next parked task or a clock advance. The
// choice stream is program data, so a run is a pure function of (program, code).
//
// Race-detector mode (NoHB): the hand-off between tasks must not create
// happens-before edges, or the detector would see every task segment ordered
// after the previous one and could never report a race. synctest.Wait acquires
// the state of every parked goroutine (runtime/synctest.go), so in this mode the
// scheduler learns that a task parked by polling plain flags from //go:norace
// functions and uses buffered gates; synctest.Wait is only the fallback for a
// task that blocked inside the code under test.

type Task struct {
	Name    string
	ID      int
	gid     uint64
	gate    chan struct{}
	parked  bool
	site    string
	done    bool
	blocked bool // did not park or finish when last granted (blocked in the code under test)
	s       *Sched
}

type Sched struct {
	Tasks        []*Task
	Choices      []int // choice stream (program data)
	pos          int
	Trace        []string // decisions taken (event log)
	Steps        int
	MaxSteps     int
	Advances     []time.Duration // clock-advance options offered at every decision
	OnStep       func() error    // invariant evaluated after every step
	Stalled      bool
	NoHB         bool // race-detector friendly hand-off
	Draining     bool // yields are no-ops: let everything run to completion
	Holds        []Hold
	holdSeen     []int // per hold: matching parks seen so far
	holdLeft     []int // per hold: decisions the task is still held for
	holdTask     []int // per hold: the task it holds (Hold.Task < 0: whichever task parks at the site)
	HoldsHit     int
	SlowSettles  int  // quiescence had to be established by synctest.Wait (diagnostics)
	TraceBlocked bool // record where a task blocked without parking (diagnostics)
	Sticky       int  // per mille: probability that the task that ran last runs again (bursts: few preemptions, as in PCT)
	byGID        map[uint64]*Task
	mu           sync.Mutex
	nreg         int
}

func NewSched(choices []int) *Sched {
	return &Sched{Choices: choices, MaxSteps: 2000, byGID: map[uint64]*Task{}}
}

func (s *Sched) next(n int) int {
	if n <= 0 {
		return 0
	}
	v := 0
	if s.pos < len(s.Choices) {
		v = s.Choices[s.pos]
	}
	s.pos++
	if v < 0 {
		v = -v
	}
	return v % n
}

// Go starts a task. The task starts parked at site "start".
func (s *Sched) Go(name string, fn func(t *Task)) *Task {
	t := &Task{Name: name, ID: len(s.Tasks), gate: make(chan struct{}, 1), s: s, parked: true, site: "start"}
	s.Tasks = append(s.Tasks, t)
	go func() {
		s.mu.Lock()
		t.gid = goid()
		s.byGID[t.gid] = t
		s.nreg++
		s.mu.Unlock()
		<-t.gate
		defer t.finish()
		fn(t)
	}()
	return t
}

//go:norace
func (t *Task) finish() { t.done = true; t.parked = false }

//go:norace
func (t *Task) setParked(site string) { t.site = site; t.parked = true }

//go:norace
func (t *Task) state() (parked, done bool, site string) { return t.parked, t.done, t.site }

//go:norace
func (t *Task) clearParked() { t.parked = false; t.blocked = false }

// Yield parks the calling task until the scheduler grants it again.
func (t *Task) Yield(site string) {
	if t.s.draining() {
		return
	}
	t.setParked(site)
	<-t.gate
}

//go:norace
func (s *Sched) draining() bool { return s.Draining }

// TaskOf returns the task of the calling goroutine, if it is one. Lock-free
// after start-up (tasks register before the first grant).
//
//go:norace
func (s *Sched) TaskOf() *Task { return s.byGID[goid()] }

func (s *Sched) waitRegistered() {
	for {
		s.mu.Lock()
		n := s.nreg
		s.mu.Unlock()
		if n >= len(s.Tasks) {
			return
		}
		runtime.Gosched()
	}
}

// settle waits until the whole bubble is quiescent: every goroutine other than
// the scheduler is parked, finished or blocked.
func (s *Sched) settle(t *Task) {
	if !s.NoHB {
		synctest.Wait()
		return
	}
	// Race-detector mode: quiescence is read from the goroutine states in a
	// runtime stack dump (no happens-before edge is created by looking).
	for i := 0; i < 200000; i++ {
		if bubbleQuiescent() {
			if t != nil {
				if p, d, _ := t.state(); !p && !d {
					t.blocked = true
					starveMutexWaiters()
					if s.TraceBlocked {
						s.Trace = append(s.Trace, "blocked "+t.Name+" "+goroutineInfo(t.gid))
					}
				}
			}
			return
		}
		runtime.Gosched()
	}
	// fallback (slow I/O etc.)
	synctest.Wait()
	s.SlowSettles++
	if t != nil {
		if p, d, _ := t.state(); !p && !d {
			t.blocked = true
			if s.TraceBlocked {
				s.Trace = append(s.Trace, "blocked "+t.Name+" "+goroutineInfo(t.gid))
			}
		}
	}
}

var stackBuf = make([]byte, 1<<20)

// goroutine wait reasons that only end through another goroutine's action or
// the fake clock: a goroutine in one of these is at rest.
var quietStates = [][]byte{
	[]byte("chan receive"), []byte("chan send"), []byte("select"), []byte("semacquire"),
	[]byte("sync.Mutex.Lock"), []byte("sync.RWMutex.RLock"), []byte("sync.RWMutex.Lock"),
	[]byte("sync.Cond.Wait"), []byte("sync.WaitGroup.Wait"), []byte("sleep"), []byte("synctest"),
}

// goroutine wait reasons that synctest does not treat as durable: while one
// goroutine of the bubble waits like this the fake clock cannot advance, and
// only the lock's holder can make progress.
var mutexStates = [][]byte{
	[]byte("sync.Mutex.Lock"), []byte("sync.RWMutex.RLock"), []byte("sync.RWMutex.Lock"), []byte("semacquire"),
}

// runtimeSemWait reports whether a goroutine in state "semacquire" waits for one
// of the runtime's own semaphores (a goroutine that is about to start a garbage
// collection waits for the world semaphore, which runtime.Stack itself holds
// while it takes the dump): that goroutine is running, not at rest. rest is the
// dump from the end of the goroutine's header line on.
func runtimeSemWait(st, rest []byte) bool {
	if !bytes.HasPrefix(st, []byte("semacquire")) {
		return false
	}
	body := rest
	if i := bytes.Index(body, []byte("\ngoroutine ")); i >= 0 {
		body = body[:i]
	}
	for _, f := range [][]byte{[]byte("runtime.gcStart"), []byte("runtime.stopTheWorld"), []byte("runtime.GC("), []byte("runtime.gcMarkDone"), []byte("runtime.gcMarkTermination"), []byte("runtime.ReadMemStats"), []byte("runtime.Stack(")} {
		if bytes.Contains(body, f) {
			return true
		}
	}
	return false
}

// starveMutexWaiters makes the behaviour of sync.Mutex independent of real
// time. A waiter that wakes up after more than 1 ms (measured on the real
// clock, also inside a bubble) switches the mutex to starvation mode, in which
// Unlock hands the lock to the waiter instead of letting the unlocking goroutine
// re-take it. Whether a waiter crosses that threshold would depend on the
// machine's load. Called when a task has just been found blocked: after the
// pause every waiter has waited longer than the threshold, so the starvation
// path is taken in every execution.
func starveMutexWaiters() {
	if !bubbleMutexWaiter() {
		return
	}
	ts := syscall.Timespec{Nsec: 1300000}
	_ = syscall.Nanosleep(&ts, nil)
}

// goroutineInfo returns the wait state and the innermost frames of a goroutine
// from the dump taken last (stackBuf).
func goroutineInfo(gid uint64) string {
	n := runtime.Stack(stackBuf, true)
	b := stackBuf[:n]
	key := []byte(fmt.Sprintf("goroutine %d [", gid))
	i := bytes.Index(b, key)
	if i < 0 {
		return "?"
	}
	b = b[i:]
	if j := bytes.Index(b[1:], []byte("\ngoroutine ")); j >= 0 {
		b = b[:j+1]
	}
	lines := strings.Split(string(b), "\n")
	if os.Getenv("VERIF_TRACE_BLOCKED") == "2" && !strings.Contains(lines[0], "synctest") {
		fmt.Fprintf(os.Stderr, "RAWBLOCKED\n%s\n", b)
	}
	out := lines[0]
	if i := strings.IndexByte(out, '['); i >= 0 {
		out = out[i:]
	}
	for k := 1; k < len(lines) && k < 12; k += 2 {
		f := strings.TrimSpace(lines[k])
		if i := strings.LastIndexByte(f, '('); i >= 0 {
			f = f[:i]
		}
		out += " < " + f
	}
	return out
}

// inGC reports whether the goroutine whose dump starts at rest (end of its
// header line) is inside the collector's start or assist path.
func inGC(rest []byte) bool {
	body := rest
	if i := bytes.Index(body, []byte("\ngoroutine ")); i >= 0 {
		body = body[:i]
	}
	return bytes.Contains(body, []byte("runtime.gcStart")) || bytes.Contains(body, []byte("runtime.gcAssistAlloc")) ||
		(bytes.Contains(body, []byte("runtime.mallocgc")) && bytes.Contains(body, []byte("verif/sim.")))
}

// bubbleMutexWaiter reports whether a goroutine of the bubble is blocked on a
// mutex. A clock advance must not be chosen then: time.Sleep in a bubble only
// returns once every goroutine is durably blocked, and a mutex waiter is not.
func bubbleMutexWaiter() bool {
	n := runtime.Stack(stackBuf, true)
	b := stackBuf[:n]
	for len(b) > 0 {
		i := bytes.Index(b, []byte("goroutine "))
		if i < 0 {
			break
		}
		b = b[i:]
		eol := bytes.IndexByte(b, '\n')
		if eol < 0 {
			eol = len(b)
		}
		hdr := b[:eol]
		b = b[eol:]
		lb := bytes.IndexByte(hdr, '[')
		rb := bytes.LastIndexByte(hdr, ']')
		if lb < 0 || rb < lb {
			continue
		}
		st := hdr[lb+1 : rb]
		if !bytes.Contains(st, []byte("synctest bubble")) {
			continue
		}
		if runtimeSemWait(st, b) {
			continue
		}
		for _, w := range mutexStates {
			if bytes.HasPrefix(st, w) {
				return true
			}
		}
	}
	return false
}

// bubbleQuiescent reports whether no goroutine of a synctest bubble other than
// the caller is running, runnable or inside a system call.
func bubbleQuiescent() bool {
	n := runtime.Stack(stackBuf, true)
	b := stackBuf[:n]
	first := true
	for len(b) > 0 {
		// header line: "goroutine 12 [chan receive, synctest bubble 3]:"
		i := bytes.Index(b, []byte("goroutine "))
		if i < 0 {
			break
		}
		b = b[i:]
		eol := bytes.IndexByte(b, '\n')
		if eol < 0 {
			eol = len(b)
		}
		hdr := b[:eol]
		b = b[eol:]
		lb := bytes.IndexByte(hdr, '[')
		rb := bytes.LastIndexByte(hdr, ']')
		if lb < 0 || rb < lb {
			continue
		}
		if first {
			first = false // the caller itself is listed first
			continue
		}
		st := hdr[lb+1 : rb]
		if !bytes.Contains(st, []byte("synctest bubble")) {
			// The runtime takes a goroutine out of its bubble while it starts a
			// garbage collection or assists one (mgc.go, mgcmark.go): such a
			// goroutine is busy, whichever bubble it belongs to.
			if inGC(b) || bytes.HasPrefix(st, []byte("runnable")) || bytes.HasPrefix(st, []byte("running")) {
				return false
			}
			continue
		}
		if runtimeSemWait(st, b) {
			return false
		}
		quiet := false
		for _, w := range quietStates {
			if bytes.HasPrefix(st, w) {
				quiet = true
				break
			}
		}
		if !quiet {
			return false // running, runnable, syscall, preempted, GC assist wait, IO wait, ...
		}
	}
	return true
}

// Run drives the tasks until all are done, the step budget is exhausted or
// nothing can make progress.
func (s *Sched) Run() error {
	s.waitRegistered()
	var last, prev *Task
	for s.Steps = 0; s.Steps < s.MaxSteps; s.Steps++ {
		s.settle(last)
		last0 := last
		last = nil
		var ready []*Task
		alive := 0
		for _, t := range s.Tasks {
			p, d, _ := t.state()
			if d {
				continue
			}
			alive++
			if p {
				ready = append(ready, t)
			}
		}
		if alive == 0 {
			return nil
		}
		ready = s.applyHolds(ready, last0)
		advances := s.Advances
		if len(advances) > 0 && bubbleMutexWaiter() {
			// a task waits for a mutex another (parked) task holds: only running a
			// task can make progress, the fake clock cannot move
			advances = nil
		}
		n := len(ready) + len(advances)
		if n == 0 {
			s.Stalled = true
			return fmt.Errorf("no task can run: %d alive, none parked, no clock advance offered", alive)
		}
		k := -1
		if s.Sticky > 0 && prev != nil {
			for i, t := range ready {
				if _, _, site := t.state(); t == prev && site != "op" && site != "app" && site != "start" && s.next(1000) < s.Sticky {
					k = i
				}
			}
		}
		if k < 0 {
			k = s.next(n)
		}
		if k < len(ready) {
			t := ready[k]
			_, _, site := t.state()
			s.Trace = append(s.Trace, fmt.Sprintf("run %s@%s", t.Name, site))
			t.clearParked()
			t.gate <- struct{}{}
			last = t
			prev = t
		} else {
			d := advances[k-len(ready)]
			s.Trace = append(s.Trace, fmt.Sprintf("clock +%v", d))
			time.Sleep(d)
		}
		if s.OnStep != nil {
			s.settle(last)
			if err := s.OnStep(); err != nil {
				return err
			}
		}
	}
	return nil
}

// applyHolds removes held tasks from the ready set. justRan is the task that ran
// in the previous decision (it has newly parked, if it is parked at all).
func (s *Sched) applyHolds(ready []*Task, justRan *Task) []*Task {
	if len(s.Holds) == 0 {
		return ready
	}
	if s.holdSeen == nil {
		s.holdSeen = make([]int, len(s.Holds))
		s.holdLeft = make([]int, len(s.Holds))
		s.holdTask = make([]int, len(s.Holds))
	}
	if justRan != nil {
		if p, d, site := justRan.state(); p && !d {
			for i, h := range s.Holds {
				if (h.Task == justRan.ID || h.Task < 0) && strings.HasPrefix(site, h.Site) {
					s.holdSeen[i]++
					if s.holdSeen[i] == h.Nth {
						s.holdLeft[i] = h.Len
						s.holdTask[i] = justRan.ID
						s.HoldsHit++
						s.Trace = append(s.Trace, fmt.Sprintf("hold %s@%s for %d", justRan.Name, site, h.Len))
					}
				}
			}
		}
	}
	var out []*Task
	for _, t := range ready {
		held := false
		for i := range s.Holds {
			if s.holdTask[i] == t.ID && s.holdLeft[i] > 0 {
				held = true
			}
		}
		if !held {
			out = append(out, t)
		}
	}
	if len(out) == 0 && len(ready) > 0 && (len(s.Advances) == 0 || bubbleMutexWaiter()) {
		// nothing else can run: the delay ends
		for i := range s.holdLeft {
			s.holdLeft[i] = 0
		}
		return ready
	}
	for i := range s.holdLeft {
		if s.holdLeft[i] > 0 {
			s.holdLeft[i]--
		}
	}
	return out
}

// Drain completes the run deterministically: the choice stream is exhausted, so
// every decision picks the first parked task (or, when none is parked, advances
// the clock by the given amount so that timeouts fire). Returns the tasks that
// still did not finish within the extra step budget.
func (s *Sched) Drain(advance time.Duration, extraSteps int) []string {
	s.Choices = nil
	s.pos = 0
	s.Advances = nil
	if advance > 0 {
		s.Advances = []time.Duration{advance}
	}
	base := s.Steps
	s.MaxSteps = extraSteps
	_ = s.Run()
	s.Steps += base
	synctest.Wait()
	var stuck []string
	for _, t := range s.Tasks {
		if _, d, site := t.state(); !d {
			stuck = append(stuck, t.Name+"@"+site)
		}
	}
	return stuck
}

//go:norace
func (s *Sched) setDraining() { s.Draining = true }
