package sim

import (
	"fmt"
	"runtime"
	"sync"
	"testing/synctest"
	"time"
)

// Sched is the seeded scheduler of the CONC engines. Task goroutines run inside
// one synctest bubble; exactly one runs at a time. A task runs until it parks at
// a yield point, blocks durably or finishes. Then the scheduler consumes the next
// value of the choice stream to pick the next parked task or a clock advance. The
// choice stream is program data, so a run is a pure function of (program, code).
//
// Race-detector mode (NoHB): the hand-off between tasks must not create
// happens-before edges, or the detector would see every task segment ordered
// after the previous one and could never report a race. synctest.Wait acquires
// the state of every parked goroutine (runtime/synctest.go), so in this mode the
// scheduler learns that a task parked by polling plain flags from //go:norace
// functions and uses buffered gates; synctest.Wait is only the fallback for a
// task that blocked inside the code under test.

type Task struct {
	Name    string
	ID      int
	gate    chan struct{}
	parked  bool
	site    string
	done    bool
	blocked bool // did not park or finish when last granted (blocked in the code under test)
	s       *Sched
}

type Sched struct {
	Tasks    []*Task
	Choices  []int // choice stream (program data)
	pos      int
	Trace    []string // decisions taken (event log)
	Steps    int
	MaxSteps int
	Advances []time.Duration // clock-advance options offered at every decision
	OnStep   func() error    // invariant evaluated after every step
	Stalled  bool
	NoHB     bool // race-detector friendly hand-off
	Draining bool // yields are no-ops: let everything run to completion
	byGID    map[uint64]*Task
	mu       sync.Mutex
	nreg     int
}

func NewSched(choices []int) *Sched {
	return &Sched{Choices: choices, MaxSteps: 2000, byGID: map[uint64]*Task{}}
}

func (s *Sched) next(n int) int {
	if n <= 0 {
		return 0
	}
	v := 0
	if s.pos < len(s.Choices) {
		v = s.Choices[s.pos]
	}
	s.pos++
	if v < 0 {
		v = -v
	}
	return v % n
}

// Go starts a task. The task starts parked at site "start".
func (s *Sched) Go(name string, fn func(t *Task)) *Task {
	t := &Task{Name: name, ID: len(s.Tasks), gate: make(chan struct{}, 1), s: s, parked: true, site: "start"}
	s.Tasks = append(s.Tasks, t)
	go func() {
		s.mu.Lock()
		s.byGID[goid()] = t
		s.nreg++
		s.mu.Unlock()
		<-t.gate
		defer t.finish()
		fn(t)
	}()
	return t
}

//go:norace
func (t *Task) finish() { t.done = true; t.parked = false }

//go:norace
func (t *Task) setParked(site string) { t.site = site; t.parked = true }

//go:norace
func (t *Task) state() (parked, done bool, site string) { return t.parked, t.done, t.site }

//go:norace
func (t *Task) clearParked() { t.parked = false; t.blocked = false }

// Yield parks the calling task until the scheduler grants it again.
func (t *Task) Yield(site string) {
	if t.s.draining() {
		return
	}
	t.setParked(site)
	<-t.gate
}

//go:norace
func (s *Sched) draining() bool { return s.Draining }

// TaskOf returns the task of the calling goroutine, if it is one. Lock-free
// after start-up (tasks register before the first grant).
//
//go:norace
func (s *Sched) TaskOf() *Task { return s.byGID[goid()] }

func (s *Sched) waitRegistered() {
	for {
		s.mu.Lock()
		n := s.nreg
		s.mu.Unlock()
		if n >= len(s.Tasks) {
			return
		}
		runtime.Gosched()
	}
}

// settle waits until the granted task parked, finished or blocked.
func (s *Sched) settle(t *Task) {
	if !s.NoHB || t == nil {
		synctest.Wait()
		return
	}
	deadline := time.Now() // fake clock does not move; count spins instead
	_ = deadline
	for i := 0; i < 20000; i++ {
		p, d, _ := t.state()
		if p || d {
			return
		}
		runtime.Gosched()
	}
	// fallback: the task is slow or blocked inside the code under test
	synctest.Wait()
	p, d, _ := t.state()
	if !p && !d {
		t.blocked = true
	}
}

// Run drives the tasks until all are done, the step budget is exhausted or
// nothing can make progress.
func (s *Sched) Run() error {
	s.waitRegistered()
	var last *Task
	for s.Steps = 0; s.Steps < s.MaxSteps; s.Steps++ {
		s.settle(last)
		last = nil
		var ready []*Task
		alive := 0
		for _, t := range s.Tasks {
			p, d, _ := t.state()
			if d {
				continue
			}
			alive++
			if p {
				ready = append(ready, t)
			}
		}
		if alive == 0 {
			return nil
		}
		n := len(ready) + len(s.Advances)
		if n == 0 {
			s.Stalled = true
			return fmt.Errorf("no task can run: %d alive, none parked, no clock advance offered", alive)
		}
		k := s.next(n)
		if k < len(ready) {
			t := ready[k]
			_, _, site := t.state()
			s.Trace = append(s.Trace, fmt.Sprintf("run %s@%s", t.Name, site))
			t.clearParked()
			t.gate <- struct{}{}
			last = t
		} else {
			d := s.Advances[k-len(ready)]
			s.Trace = append(s.Trace, fmt.Sprintf("clock +%v", d))
			time.Sleep(d)
		}
		if s.OnStep != nil {
			s.settle(last)
			if err := s.OnStep(); err != nil {
				return err
			}
		}
	}
	return nil
}

// Drain lets every unfinished task run to completion: yields become no-ops and
// parked tasks are released. Returns the names of tasks that still did not
// finish (blocked forever).
func (s *Sched) Drain(advance time.Duration, rounds int) []string {
	s.setDraining()
	for r := 0; r < rounds; r++ {
		alive := 0
		for _, t := range s.Tasks {
			p, d, _ := t.state()
			if d {
				continue
			}
			alive++
			if p {
				t.clearParked()
				select {
				case t.gate <- struct{}{}:
				default:
				}
			}
		}
		if alive == 0 {
			return nil
		}
		synctest.Wait()
		if advance > 0 {
			time.Sleep(advance)
			synctest.Wait()
		}
	}
	var stuck []string
	for _, t := range s.Tasks {
		if _, d, site := t.state(); !d {
			stuck = append(stuck, t.Name+"@"+site)
		}
	}
	return stuck
}

//go:norace
func (s *Sched) setDraining() { s.Draining = true }
