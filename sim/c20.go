package sim

import (
	"bytes"
	"context"
	"crypto/md5"
	"encoding/json"
	"errors"
	"fmt"
	"io"
	"log/slog"
	"os"
	"path/filepath"
	"time"

	"github.com/aws/aws-sdk-go-v2/aws"
	"github.com/aws/aws-sdk-go-v2/service/s3"
	"github.com/aws/smithy-go"
	"github.com/benbjohnson/litestream"
	lss3 "github.com/benbjohnson/litestream/s3"
)

// C20 — at most one instance holds an unexpired replica lease.
//
// Real code: s3.Leaser (acquire/renew/release). Stub: the S3 HTTP API, replaced
// at the S3API seam by s3mem (one key, atomic conditional writes). Every S3
// request is a yield point of the seeded scheduler; the scheduler may advance
// the simulated clock at any decision.

type s3obj struct {
	body []byte
	etag string
}

type s3mem struct {
	// request faults from the program, keyed by request number: the request fails
	// with a server error before taking effect ("fail_before") or after it
	// ("fail_after": the write happened, the caller sees an error)
	faults map[int]string
	reqs   int
	hit    map[string]int
	obj      *s3obj
	version  int
	etagMode int // 0: md5 of body (like S3), 1: version counter
	log      []s3event
	seq      int
	yield    func(site string)
}

type s3event struct {
	Seq    int
	At     time.Time
	Op     string // put | delete
	Owner  string
	Gen    int64
	Exp    time.Time
	Prev   *litestream.Lease // record replaced (nil if absent)
	Client int
}

func (m *s3mem) newETag(body []byte) string {
	m.version++
	if m.etagMode == 0 {
		return fmt.Sprintf("\"%x\"", md5.Sum(body))
	}
	return fmt.Sprintf("\"v%d\"", m.version)
}

type s3client struct {
	m  *s3mem
	id int
	t  *Task
}

func apiErr(code string) error { return &smithy.GenericAPIError{Code: code, Message: code} }

// fault returns the fault assigned to this request, if any.
func (m *s3mem) fault() string {
	m.reqs++
	f := m.faults[m.reqs]
	if f != "" && m.hit != nil {
		m.hit["s3_"+f]++
	}
	return f
}

func (c *s3client) GetObject(ctx context.Context, in *s3.GetObjectInput, _ ...func(*s3.Options)) (*s3.GetObjectOutput, error) {
	c.t.Yield("s3:get")
	if f := c.m.fault(); f != "" {
		return nil, apiErr("InternalError")
	}
	if c.m.obj == nil {
		return nil, apiErr("NoSuchKey")
	}
	o := c.m.obj
	return &s3.GetObjectOutput{Body: io.NopCloser(bytes.NewReader(o.body)), ETag: aws.String(o.etag)}, nil
}

func (c *s3client) PutObject(ctx context.Context, in *s3.PutObjectInput, _ ...func(*s3.Options)) (*s3.PutObjectOutput, error) {
	body, _ := io.ReadAll(in.Body)
	c.t.Yield("s3:put")
	m := c.m
	flt := m.fault()
	if flt == "fail_before" {
		return nil, apiErr("InternalError")
	}
	if in.IfNoneMatch != nil && *in.IfNoneMatch == "*" && m.obj != nil {
		return nil, apiErr("PreconditionFailed")
	}
	if in.IfMatch != nil {
		if m.obj == nil {
			return nil, apiErr("NoSuchKey")
		}
		if m.obj.etag != *in.IfMatch {
			return nil, apiErr("PreconditionFailed")
		}
	}
	var prev *litestream.Lease
	if m.obj != nil {
		var l litestream.Lease
		if json.Unmarshal(m.obj.body, &l) == nil {
			prev = &l
		}
	}
	var nl litestream.Lease
	_ = json.Unmarshal(body, &nl)
	m.obj = &s3obj{body: body, etag: m.newETag(body)}
	m.seq++
	m.log = append(m.log, s3event{Seq: m.seq, At: time.Now(), Op: "put", Owner: nl.Owner, Gen: nl.Generation, Exp: nl.ExpiresAt, Prev: prev, Client: c.id})
	if flt == "fail_after" {
		return nil, apiErr("InternalError") // the write took effect; the response was lost
	}
	return &s3.PutObjectOutput{ETag: aws.String(m.obj.etag)}, nil
}

func (c *s3client) DeleteObject(ctx context.Context, in *s3.DeleteObjectInput, _ ...func(*s3.Options)) (*s3.DeleteObjectOutput, error) {
	c.t.Yield("s3:delete")
	m := c.m
	flt := m.fault()
	if flt == "fail_before" {
		return nil, apiErr("InternalError")
	}
	if m.obj == nil {
		return nil, apiErr("NoSuchKey")
	}
	if in.IfMatch != nil && m.obj.etag != *in.IfMatch {
		return nil, apiErr("PreconditionFailed")
	}
	var prev *litestream.Lease
	var l litestream.Lease
	if json.Unmarshal(m.obj.body, &l) == nil {
		prev = &l
	}
	m.obj = nil
	m.seq++
	m.log = append(m.log, s3event{Seq: m.seq, At: time.Now(), Op: "delete", Prev: prev, Client: c.id})
	if flt == "fail_after" {
		return nil, apiErr("InternalError")
	}
	return &s3.DeleteObjectOutput{}, nil
}

func genC20(r *Rng, tier string, idx int) *Program {
	p := &Program{Property: "C20", Engine: "CONC"}
	nc := r.Range(2, 3)
	ttl := []int64{1000, 30000}[r.Intn(2)]
	p.Params = map[string]int64{"clients": int64(nc), "ttl_ms": ttl, "etag_mode": int64(r.Intn(2))}
	// known finding F9 (generation restarts at 1 after a release): releases are
	// excluded from 70% of the runs.
	wRelease := 0
	if idx%10 >= 7 {
		wRelease = 20
		p.Variant = "with-release"
	}
	for c := 0; c < nc; c++ {
		n := r.Range(2, 8)
		for i := 0; i < n; i++ {
			k := []string{"acquire", "renew", "release"}[r.Pick([]int{50, 30, wRelease})]
			p.Ops = append(p.Ops, Op{Kind: k, Level: c})
		}
	}
	for i := 0; i < 200; i++ {
		p.Schedule = append(p.Schedule, r.Intn(1000))
	}
	// request faults in 35% of the runs: a request fails before or after taking effect
	if r.Chance(0.35) {
		for k := r.Range(1, 3); k > 0; k-- {
			p.Faults = append(p.Faults, Fault{Call: r.Range(1, 30), Kind: PickOf(r, []string{"fail_before", "fail_after", "fail_after"})})
		}
	}
	return p
}

type leaseClient struct {
	id     int
	leaser *lss3.Leaser
	lease  *litestream.Lease // what this instance believes it holds (nil if none)
}

func runC20(t testingT, p *Program) *Result {
	res := &Result{Seed: p.Seed, Probes: map[string]int{}, FaultsHit: map[string]int{}}
	wall := time.Now()
	var viol *Violation
	var events []string
	fail := func(class, format string, a ...any) {
		if viol == nil {
			viol = &Violation{Property: "C20", Class: class, Msg: fmt.Sprintf(format, a...), Facts: map[string]any{}}
		}
	}
	prevLogger := slog.Default()
	slog.SetDefault(slog.New(newProbeHandler()))
	defer slog.SetDefault(prevLogger)
	done := make(chan struct{})
	var panicked any
	go func() {
		defer close(done)
		defer func() {
			if r := recover(); r != nil {
				panicked = r
			}
		}()
		bubble(t, func() {
			start := time.Now()
			ttl := time.Duration(p.Params["ttl_ms"]) * time.Millisecond
			nc := int(p.Params["clients"])
			mem := &s3mem{etagMode: int(p.Params["etag_mode"]), faults: map[int]string{}, hit: res.FaultsHit}
			for _, f := range p.Faults {
				mem.faults[f.Call] = f.Kind
			}
			sch := NewSched(p.Schedule)
			sch.MaxSteps = 400
			sch.Advances = []time.Duration{time.Millisecond, ttl / 3, ttl - time.Millisecond, ttl, ttl + time.Millisecond, 2 * ttl}
			clients := make([]*leaseClient, nc)
			released := false
			for c := 0; c < nc; c++ {
				c := c
				lc := &leaseClient{id: c}
				clients[c] = lc
				var myops []Op
				for _, op := range p.Ops {
					if op.Level == c {
						myops = append(myops, op)
					}
				}
				task := sch.Go(fmt.Sprintf("c%d", c), func(tk *Task) {
					ctx := context.Background()
					for _, op := range myops {
						switch op.Kind {
						case "acquire":
							l, err := lc.leaser.AcquireLease(ctx)
							if err == nil {
								lc.lease = l
								events = append(events, fmt.Sprintf("c%d acquire ok gen=%d exp=+%v", c, l.Generation, l.ExpiresAt.Sub(start)))
								res.Probes["acquire_ok"]++
							} else {
								var le *litestream.LeaseExistsError
								if !errors.As(err, &le) {
									events = append(events, fmt.Sprintf("c%d acquire err %v", c, err))
									res.Probes["acquire_other_error"]++
								} else {
									events = append(events, fmt.Sprintf("c%d acquire held-by-other", c))
									res.Probes["acquire_refused"]++
								}
							}
						case "renew":
							if lc.lease == nil {
								continue
							}
							l, err := lc.leaser.RenewLease(ctx, lc.lease)
							if err == nil {
								lc.lease = l
								events = append(events, fmt.Sprintf("c%d renew ok gen=%d exp=+%v", c, l.Generation, l.ExpiresAt.Sub(start)))
								res.Probes["renew_ok"]++
							} else {
								events = append(events, fmt.Sprintf("c%d renew err %v", c, err))
								if errors.Is(err, litestream.ErrLeaseNotHeld) {
									res.Probes["renew_not_held"]++
								}
								lc.lease = nil
							}
						case "release":
							if lc.lease == nil {
								continue
							}
							err := lc.leaser.ReleaseLease(ctx, lc.lease)
							events = append(events, fmt.Sprintf("c%d release %v", c, err))
							if err == nil {
								res.Probes["release_ok"]++
								released = true
							} else if errors.Is(err, litestream.ErrLeaseNotHeld) {
								res.Probes["release_not_held"]++
							}
							lc.lease = nil
						}
					}
				})
				cl := &s3client{m: mem, id: c, t: task}
				lz := lss3.NewLeaser()
				lz.Bucket = "b"
				lz.Path = "db"
				lz.TTL = ttl
				lz.Owner = fmt.Sprintf("owner-%d", c)
				lz.SetClient(cl)
				lc.leaser = lz
			}
			// invariant after every scheduler step: evaluate new storage events
			seen := 0
			var lastOwnerGen int64
			lastOwner := ""
			sch.OnStep = func() error {
				for ; seen < len(mem.log); seen++ {
					ev := mem.log[seen]
					res.Checks++
					if ev.Op != "put" {
						continue
					}
					// a record of another owner may be replaced only if it was expired at this
					// instant. A lease is unexpired through ExpiresAt inclusive: that is what its
					// holder is told by the lease API (Lease.IsExpired: now after ExpiresAt).
					if ev.Prev != nil && ev.Prev.Owner != ev.Owner && !ev.At.After(ev.Prev.ExpiresAt) {
						fail("takeover-of-live-lease", "%s replaced the lease of %s (generation %d) at +%v although it expires at +%v",
							ev.Owner, ev.Prev.Owner, ev.Prev.Generation, ev.At.Sub(start), ev.Prev.ExpiresAt.Sub(start))
					}
					// no other instance may believe it holds an unexpired lease at this instant
					for _, oc := range clients {
						if oc.id == ev.Client || oc.lease == nil {
							continue
						}
						if !ev.At.After(oc.lease.ExpiresAt) && ev.Owner != oc.lease.Owner {
							fail("two-holders", "%s obtained the lease at +%v while %s still holds generation %d until +%v",
								ev.Owner, ev.At.Sub(start), oc.lease.Owner, oc.lease.Generation, oc.lease.ExpiresAt.Sub(start))
						}
					}
					if ev.Owner != lastOwner {
						if lastOwner != "" && ev.Gen <= lastOwnerGen {
							fail("generation-not-increasing", "ownership passed from %s (generation %d) to %s with generation %d", lastOwner, lastOwnerGen, ev.Owner, ev.Gen)
							if viol != nil {
								viol.Facts["after_release"] = released
							}
						}
						lastOwner = ev.Owner
					} else if ev.Gen < lastOwnerGen {
						fail("generation-decreased", "%s went from generation %d to %d", ev.Owner, lastOwnerGen, ev.Gen)
						if viol != nil {
							viol.Facts["after_release"] = released
						}
					}
					lastOwnerGen = ev.Gen
				}
				return nil
			}
			if err := sch.Run(); err != nil && viol == nil {
				res.Trouble = "scheduler: " + err.Error()
			}
			sch.OnStep()
			// bounded liveness: after everything expired, an acquire succeeds within 2 attempts
			allDone := true
			for _, tk := range sch.Tasks {
				if _, d, _ := tk.state(); !d {
					allDone = false
				}
			}
			if allDone && viol == nil {
				mem.faults = nil // bounded liveness is asserted once faults have stopped
				time.Sleep(3 * ttl)
				ok := false
				var lastErr error
				var tk *Task
				tk = sch.Go("probe", func(_ *Task) {
					for i := 0; i < 2 && !ok; i++ {
						_, err := clients[0].leaser.AcquireLease(context.Background())
						ok = err == nil
						lastErr = err
					}
				})
				clients[0].leaser.SetClient(&s3client{m: mem, id: 0, t: tk})
				sch.Advances = nil
				sch.Choices = nil
				sch.MaxSteps = 50
				_ = sch.Run()
				res.Checks++
				res.Probes["liveness_probes"]++
				if !ok {
					fail("no-acquire-after-expiry", "every lease expired or was released, yet 2 acquire attempts failed: %v", lastErr)
				}
			}
			events = append(events, sch.Trace...)
			res.Ops = sch.Steps
			res.SimMs = time.Since(start).Milliseconds()
			res.Probes["s3_requests"] = len(mem.log)
			res.Probes["sched_steps"] = sch.Steps
			// unfinished tasks are parked forever; release them so the bubble can end
			for _, tk := range sch.Tasks {
				if _, d, _ := tk.state(); !d {
					res.Probes["unfinished_tasks"]++
				}
			}
			sch.Drain(0, 2000)
		})
	}()
	<-done
	if panicked != nil && viol == nil && res.Trouble == "" {
		res.Trouble = fmt.Sprintf("panic: %v", panicked)
	}
	res.Violation = viol
	res.Events = events
	res.WallMs = time.Since(wall).Milliseconds()
	return res
}

func init() {
	register(&Prop{ID: "C20", Engine: "CONC", Gen: genC20, Run: runC20, Nontrivial: func(r *Result) bool {
		return r.Probes["acquire_ok"] >= 1 && r.Probes["s3_requests"] >= 2
	}})
}

var _ = filepath.Join
var _ = os.Getpid
