package sim

import (
	"bytes"
	"context"
	"fmt"
	"os"
	"path/filepath"
	"strings"
	"time"

	"github.com/benbjohnson/litestream"
	"github.com/benbjohnson/litestream/file"
	"github.com/superfly/ltx"
)

// C10 — restore fails loudly rather than produce a wrong or partial database.

func genC10(r *Rng, tier string, idx int) *Program {
	p := &Program{Property: "C10", Engine: "HIST"}
	p.Cfg = genConfig(r)
	if p.Cfg.PageSize > 8192 {
		p.Cfg.PageSize = []int{512, 1024, 4096}[r.Intn(3)]
	}
	p.Cfg.InitRows = []int{0, 5, 40}[r.Intn(3)]
	p.Cfg.LevelMs = []int64{2000, 10000}[:r.Range(1, 2)]
	p.Cfg.L0RetentionMs = 0
	p.Cfg.StepGapMs = 1000
	n := r.Range(5, 16)
	for i := 0; i < n; i++ {
		switch r.Pick([]int{40, 30, 12, 6, 6, 6}) {
		case 0:
			p.Ops = append(p.Ops, appOp(genTxn(r, &p.Cfg)))
		case 1:
			p.Ops = append(p.Ops, Op{Kind: "ls_sync_wait"})
		case 2:
			p.Ops = append(p.Ops, Op{Kind: "ls_compact", Level: r.Range(1, len(p.Cfg.LevelMs))})
		case 3:
			p.Ops = append(p.Ops, Op{Kind: "ls_compact", Level: 9})
		case 4:
			p.Ops = append(p.Ops, Op{Kind: "ls_ckpt", Mode: "PASSIVE"})
		default:
			p.Ops = append(p.Ops, Op{Kind: "sleep", Ms: 3000})
		}
	}
	p.Ops = append(p.Ops, Op{Kind: "ls_sync_wait"})
	cases := int64(40)
	exhaustive := false
	if tier == "thorough" && idx%8 == 0 {
		exhaustive = true
	}
	p.Ops = append(p.Ops, Op{Kind: "corrupt_cases", N: cases, Flag: exhaustive, Ms: int64(r.Uint64() >> 33)})
	return p
}

type c10case struct {
	Kind string // truncate | flip | delete | read_fault | existing_output
	File int    // index into the plan
	Off  int64
	Bit  int
	// read faults: the Nth..(Nth+Repeat-1)th open call of the restore gets FKind at byte Off
	Nth, Repeat int
	FKind       string
}

func (c c10case) String() string {
	switch c.Kind {
	case "read_fault":
		return fmt.Sprintf("read_fault open#%d x%d %s@%d", c.Nth, c.Repeat, c.FKind, c.Off)
	case "existing_output":
		return "existing_output"
	}
	return fmt.Sprintf("%s file#%d @%d bit%d", c.Kind, c.File, c.Off, c.Bit)
}

func copyDir(src, dst string) error {
	return filepath.Walk(src, func(path string, info os.FileInfo, err error) error {
		if err != nil {
			return err
		}
		rel, _ := filepath.Rel(src, path)
		target := filepath.Join(dst, rel)
		if info.IsDir() {
			return os.MkdirAll(target, 0o755)
		}
		b, err := os.ReadFile(path)
		if err != nil {
			return err
		}
		if err := os.WriteFile(target, b, 0o644); err != nil {
			return err
		}
		return os.Chtimes(target, info.ModTime(), info.ModTime())
	})
}

// restoreFrom restores from a replica directory through an optional fault wrapper.
func (e *Env) restoreFrom(dir string, faults []Fault, outPath string) ([]byte, error, *FaultStore) {
	inner := file.NewReplicaClient(dir)
	var client litestream.ReplicaClient = inner
	var fs *FaultStore
	if faults != nil {
		fs = NewFaultStore(inner, faults)
		client = fs
	}
	r := litestream.NewReplicaWithClient(nil, client)
	opt := litestream.NewRestoreOptions()
	opt.OutputPath = outPath
	err := r.Restore(context.Background(), opt)
	if err != nil {
		return nil, err, fs
	}
	img, rerr := os.ReadFile(outPath)
	return img, rerr, fs
}

func init() {
	extraOps["corrupt_cases"] = func(e *Env, op *Op) (string, bool) {
		if v := e.runC10Cases(op); v != nil && e.Viol == nil {
			e.Viol = v
		}
		return "ok", false
	}
}

func (e *Env) runC10Cases(op *Op) *Violation {
	ctx := context.Background()
	out := filepath.Join(e.Scratch, "c10-out.db")
	clean := func() {
		for _, s := range []string{"", ".tmp", "-wal", "-shm", "-txid"} {
			os.Remove(out + s)
		}
	}
	clean()
	base, err, _ := e.restoreFrom(e.RepDir, nil, out)
	clean()
	if err != nil {
		e.Res.Probes["c10:no_baseline"]++
		return nil // nothing to corrupt (e.g. the history never replicated anything)
	}
	plan, err := litestream.CalcRestorePlan(ctx, file.NewReplicaClient(e.RepDir), 0, time.Time{}, e.probeLogger())
	if err != nil || len(plan) == 0 {
		return nil
	}
	e.Res.Probes["c10:plan_files"] += len(plan)
	if v := e.c10Integrity(base, uint64(op.Ms)+5, out, clean); v != nil {
		return v
	}
	// learn which client calls of a restore are opens
	_, _, probe := e.restoreFrom(e.RepDir, []Fault{}, out)
	clean()
	var openIdx []int
	for _, l := range probe.CallLog {
		var i int
		var k, st string
		parts := strings.Split(l, ":")
		if len(parts) == 3 {
			fmt.Sscanf(parts[0], "%d", &i)
			k, st = parts[1], parts[2]
			_ = st
			if k == "open" {
				openIdx = append(openIdx, i)
			}
		}
	}
	var cases []c10case
	r := NewRng(uint64(op.Ms) + 17)
	sizes := make([]int64, len(plan))
	for i, f := range plan {
		sizes[i] = f.Size
	}
	if op.Flag {
		// exhaustive single corruptions for small files: every offset
		for fi, sz := range sizes {
			if sz > 6000 {
				continue
			}
			for o := int64(0); o < sz; o++ {
				cases = append(cases, c10case{Kind: "truncate", File: fi, Off: o})
				cases = append(cases, c10case{Kind: "flip", File: fi, Off: o, Bit: int(o % 8)})
			}
			cases = append(cases, c10case{Kind: "delete", File: fi})
		}
		e.Res.Probes["c10:exhaustive_runs"]++
	}
	for i := int64(0); i < op.N; i++ {
		fi := r.Intn(len(plan))
		switch r.Pick([]int{30, 30, 8, 28, 4}) {
		case 0:
			cases = append(cases, c10case{Kind: "truncate", File: fi, Off: int64(r.Intn(int(sizes[fi]) + 1))})
		case 1:
			cases = append(cases, c10case{Kind: "flip", File: fi, Off: int64(r.Intn(int(sizes[fi]))), Bit: r.Intn(8)})
		case 2:
			cases = append(cases, c10case{Kind: "delete", File: fi})
		case 3:
			if len(openIdx) == 0 {
				continue
			}
			nth := r.Intn(len(openIdx))
			cases = append(cases, c10case{Kind: "read_fault", Nth: nth, Repeat: r.Range(1, 6),
				FKind: PickOf(r, []string{"short_read", "mid_error", "fail_before", "close_error"}), Off: int64(r.Intn(int(sizes[fi]) + 50))})
		default:
			cases = append(cases, c10case{Kind: "existing_output"})
		}
	}
	caseDir := filepath.Join(e.Scratch, "c10-rep")
	for _, c := range cases {
		e.Res.Checks++
		e.Res.Probes["c10:"+c.Kind]++
		clean()
		var img []byte
		var rerr error
		var fs *FaultStore
		switch c.Kind {
		case "existing_output":
			marker := []byte("pre-existing output, must stay untouched")
			os.WriteFile(out, marker, 0o644)
			_, rerr, _ = e.restoreFrom(e.RepDir, nil, out)
			now, _ := os.ReadFile(out)
			if rerr == nil {
				return e.fail("overwrote-existing-output", "restore into an existing output path reported success")
			}
			if !bytes.Equal(now, marker) {
				return e.fail("overwrote-existing-output", "restore into an existing output path failed (%v) but changed the file", rerr)
			}
			continue
		case "read_fault":
			var faults []Fault
			// consecutive opens starting at the Nth: the retries of the same stream come right after it
			for k := 0; k < c.Repeat; k++ {
				faults = append(faults, Fault{Call: openIdx[c.Nth] + k, Kind: c.FKind, Arg: c.Off})
			}
			img, rerr, fs = e.restoreFrom(e.RepDir, faults, out)
			if fs != nil {
				for k, v := range fs.Hit {
					e.Res.FaultsHit["restore_"+k] += v
				}
			}
		default:
			os.RemoveAll(caseDir)
			if err := copyDir(e.RepDir, caseDir); err != nil {
				e.Res.Trouble = "copy replica: " + err.Error()
				return nil
			}
			f := plan[c.File]
			path := litestream.LTXFilePath(caseDir, f.Level, f.MinTXID, f.MaxTXID)
			fi, err := os.Stat(path)
			if err != nil {
				continue
			}
			switch c.Kind {
			case "truncate":
				os.Truncate(path, c.Off)
			case "flip":
				b, _ := os.ReadFile(path)
				if int(c.Off) < len(b) {
					b[c.Off] ^= 1 << uint(c.Bit)
					os.WriteFile(path, b, 0o644)
				}
			case "delete":
				os.Remove(path)
			}
			os.Chtimes(path, fi.ModTime(), fi.ModTime())
			img, rerr, _ = e.restoreFrom(caseDir, nil, out)
		}
		if rerr != nil {
			e.Res.Probes["c10:errors"]++
			if fileExists(out) {
				v := e.fail("partial-output-left", "restore failed (%v) in case [%s] but left a file at the output path", rerr, c)
				v.Facts["case"] = c.Kind
				return v
			}
			if fileExists(out + ".tmp") {
				v := e.fail("tmp-left", "restore failed (%v) in case [%s] but left %s.tmp behind", rerr, c, "output")
				v.Facts["case"] = c.Kind
				return v
			}
			continue
		}
		e.Res.Probes["c10:successes"]++
		if !bytes.Equal(img, base) && c.Kind == "delete" {
			// Deleting the newest file(s) of the chain leaves a replica that is
			// indistinguishable from an earlier one: restoring its latest state is
			// legitimate iff it is exactly the intact replica's state at that TXID
			// and nothing lies beyond it.
			if cp, err := litestream.CalcRestorePlan(ctx, file.NewReplicaClient(caseDir), 0, time.Time{}, e.probeLogger()); err == nil && len(cp) > 0 {
				m := cp[len(cp)-1].MaxTXID
				beyond := false
				for lv := 0; lv <= litestream.SnapshotLevel; lv++ {
					itr, err := file.NewReplicaClient(caseDir).LTXFiles(ctx, lv, 0, false)
					if err != nil {
						continue
					}
					for itr.Next() {
						if itr.Item().MaxTXID > m {
							beyond = true
						}
					}
					itr.Close()
				}
				if !beyond {
					clean()
					inner := file.NewReplicaClient(e.RepDir)
					rr := litestream.NewReplicaWithClient(nil, inner)
					o := litestream.NewRestoreOptions()
					o.OutputPath = out
					o.TXID = m
					if err := rr.Restore(ctx, o); err == nil {
						older, _ := os.ReadFile(out)
						if bytes.Equal(older, img) {
							e.Res.Probes["c10:tail_deleted_older_state"]++
							continue
						}
					}
				}
			}
		}
		if !bytes.Equal(img, base) {
			d := "length differs"
			if len(img) == len(base) {
				ps := e.Led.PageSize
				for pg := 0; pg*ps < len(img); pg++ {
					if !bytes.Equal(img[pg*ps:(pg+1)*ps], base[pg*ps:(pg+1)*ps]) {
						d = fmt.Sprintf("page %d differs", pg+1)
						break
					}
				}
			}
			v := e.fail("wrong-restore", "restore succeeded in case [%s] (file %s) but the database differs from the intact restore: %s", c, planFileStr(plan, c.File), d)
			v.Facts["case"] = c.Kind
			return v
		}
	}
	clean()
	os.RemoveAll(caseDir)
	return nil
}

func planFileStr(plan []*ltx.FileInfo, i int) string {
	if i < 0 || i >= len(plan) {
		return "-"
	}
	f := plan[i]
	return fmt.Sprintf("L%d[%d-%d] size %d", f.Level, f.MinTXID, f.MaxTXID, f.Size)
}

func runC10(t testingT, p *Program) *Result { return RunHIST(t, p, nil) }

func init() {
	register(&Prop{ID: "C10", Engine: "HIST", Gen: genC10, Run: runC10, Nontrivial: func(r *Result) bool {
		return r.Probes["c10:errors"] > 0 && r.Probes["c10:plan_files"] > 0
	}})
}

// c10Integrity: a replica that faithfully holds a damaged database (the SOURCE
// was damaged; every checksum of the LTX file is right) must not survive a
// restore with an integrity check: the restore fails and leaves neither the
// output nor its -wal/-shm/.tmp. Three kinds of damage: a b-tree page filled
// with garbage (the PRAGMA reports rows other than "ok"), the file header's
// magic broken, and the schema page mangled (SQLite cannot even run the PRAGMA).
func (e *Env) c10Integrity(base []byte, seed uint64, out string, clean func()) *Violation {
	ps := e.Led.PageSize
	if ps == 0 || len(base) < 2*ps || len(base)%ps != 0 {
		return nil
	}
	r := NewRng(seed)
	n := len(base) / ps
	for k := 0; k < 2; k++ {
		img := append([]byte(nil), base...)
		kind := []string{"data-page", "header-magic", "schema-page"}[r.Intn(3)]
		switch kind {
		case "data-page":
			pg := 1 + r.Intn(n-1) // not page 1
			for i := 0; i < ps; i++ {
				img[pg*ps+i] = byte(0xA5 ^ i)
			}
		case "header-magic":
			copy(img[0:16], []byte("NOT a database!\x00"))
		default:
			for i := 100; i < ps && i < 100+400; i++ {
				img[i] = byte(0x5A ^ i)
			}
		}
		dir := filepath.Join(e.Scratch, "c10-damaged")
		os.RemoveAll(dir)
		var buf bytes.Buffer
		enc, err := ltx.NewEncoder(&buf)
		if err != nil {
			return nil
		}
		if err := enc.EncodeHeader(ltx.Header{Version: ltx.Version, Flags: ltx.HeaderFlagNoChecksum, PageSize: uint32(ps), Commit: uint32(n),
			MinTXID: 1, MaxTXID: 1, Timestamp: time.Now().UnixMilli()}); err != nil {
			return nil
		}
		lock := ltx.LockPgno(uint32(ps))
		bad := false
		for pg := 1; pg <= n; pg++ {
			if uint32(pg) == lock {
				continue
			}
			if err := enc.EncodePage(ltx.PageHeader{Pgno: uint32(pg)}, img[(pg-1)*ps:pg*ps]); err != nil {
				bad = true
				break
			}
		}
		if bad || enc.Close() != nil {
			return nil
		}
		cl := file.NewReplicaClient(dir)
		if _, err := cl.WriteLTXFile(context.Background(), litestream.SnapshotLevel, 1, 1, bytes.NewReader(buf.Bytes())); err != nil {
			return nil
		}
		mode := []litestream.IntegrityCheckMode{litestream.IntegrityCheckQuick, litestream.IntegrityCheckFull}[r.Intn(2)]
		clean()
		rep := litestream.NewReplicaWithClient(nil, file.NewReplicaClient(dir))
		opt := litestream.NewRestoreOptions()
		opt.OutputPath = out
		opt.IntegrityCheck = mode
		rerr := rep.Restore(context.Background(), opt)
		e.Res.Checks++
		e.Res.Probes["c10:integrity:"+kind]++
		if rerr == nil {
			// a garbage data page may be unreferenced (free page): the check can pass legitimately
			if kind == "data-page" {
				e.Res.Probes["c10:integrity_passed_unreferenced_page"]++
				clean()
				continue
			}
			clean()
			return e.fail("integrity-check-passed-damaged", "restore with integrity check (%v) of a database with damage [%s] reported success", mode, kind)
		}
		var left []string
		for _, s := range []string{"", ".tmp", "-wal", "-shm"} {
			if fileExists(out + s) {
				left = append(left, filepath.Base(out+s))
			}
		}
		clean()
		if len(left) > 0 {
			v := e.fail("failed-restore-leaves-output", "restore with integrity check (%v) failed on a database with damage [%s] (%v) but left %v behind", mode, kind, rerr, left)
			v.Facts["damage"] = kind
			return v
		}
		e.Res.Probes["c10:integrity_failures_clean"]++
	}
	return nil
}
