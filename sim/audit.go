package sim

import (
	"bytes"
	"context"
	"errors"
	"fmt"
	"io"
	"log/slog"
	"sort"
	"time"

	"github.com/benbjohnson/litestream"
	"github.com/benbjohnson/litestream/file"
	"github.com/superfly/ltx"
)

// Reference implementations used by the replica audits (C02, C06, C07, C08, C15).
// They read LTX files with the ltx library's decoder (trusted base) and never
// call litestream's compactor or planner.

type ltxFile struct {
	Hdr   ltx.Header
	Pages map[uint32][]byte
	Order []uint32
}

func decodeLTX(b []byte) (*ltxFile, error) {
	dec := ltx.NewDecoder(bytes.NewReader(b))
	if err := dec.DecodeHeader(); err != nil {
		return nil, fmt.Errorf("decode header: %w", err)
	}
	f := &ltxFile{Hdr: dec.Header(), Pages: map[uint32][]byte{}}
	for {
		var ph ltx.PageHeader
		data := make([]byte, f.Hdr.PageSize)
		if err := dec.DecodePage(&ph, data); err == io.EOF {
			break
		} else if err != nil {
			return nil, fmt.Errorf("decode page: %w", err)
		}
		f.Pages[ph.Pgno] = data
		f.Order = append(f.Order, ph.Pgno)
	}
	if err := dec.Close(); err != nil {
		return nil, fmt.Errorf("close: %w", err)
	}
	return f, nil
}

// applyLTX applies an LTX file on top of a state (copy-on-write).
func applyLTX(base *State, f *ltxFile) *State {
	var ns *State
	if base == nil {
		ns = &State{Pages: map[uint32]*Page{}}
	} else {
		ns = base.clone()
	}
	for pg, d := range f.Pages {
		ns.Pages[pg] = newPage(d)
	}
	for pg := range ns.Pages {
		if pg > f.Hdr.Commit {
			delete(ns.Pages, pg)
		}
	}
	ns.NPages = f.Hdr.Commit
	ns.hash = ""
	return ns
}

func (s *State) complete() (uint32, bool) {
	for pg := uint32(1); pg <= s.NPages; pg++ {
		if s.Pages[pg] == nil {
			return pg, false
		}
	}
	return 0, true
}

// Chain is the independent composition of the archived level-0 files.
type Chain struct {
	N       ltx.TXID            // highest contiguous TXID composed
	States  map[ltx.TXID]*State // state after TXID n
	Times   map[ltx.TXID]int64  // header timestamp (ms) of L0 n
	Ledger  map[ltx.TXID]int    // ledger index assigned to TXID n
	Files   map[ltx.TXID]*ltxFile
}

// buildChain composes archived L0 files 1..N and checks the C02 clauses:
// gapless from 1, unique content per TXID, each state a committed ledger state,
// monotone in the ledger.
func (e *Env) buildChain() (*Chain, *Violation) {
	c := &Chain{States: map[ltx.TXID]*State{}, Times: map[ltx.TXID]int64{}, Ledger: map[ltx.TXID]int{}, Files: map[ltx.TXID]*ltxFile{}}
	keys := e.FS.ArchKeys(0)
	if len(keys) == 0 {
		return c, nil
	}
	var prev *State
	prevIdx := 0
	next := ltx.TXID(1)
	for _, k := range keys {
		if k.Min != k.Max {
			return c, e.fail("l0-multi-txid", "level-0 file %s spans several TXIDs", k)
		}
		if k.Min != next {
			v := e.fail("l0-gap", "level-0 TXIDs ever stored are not gapless from 1: expected %d, found %d", next, k.Min)
			v.Facts["expected"] = int(next)
			v.Facts["found"] = int(k.Min)
			return c, v
		}
		vers := e.FS.Arch[k]
		f0, err := decodeLTX(vers[0].Data)
		if err != nil {
			return c, e.fail("l0-undecodable", "stored level-0 file %s does not decode: %v", k, err)
		}
		for _, o := range vers[1:] {
			fo, err := decodeLTX(o.Data)
			if err != nil {
				return c, e.fail("l0-undecodable", "stored level-0 file %s (later version) does not decode: %v", k, err)
			}
			if !sameLTXContent(f0, fo) {
				v := e.fail("txid-reused", "TXID %d was stored twice on the replica with different page content (client calls %d and %d)", k.Min, vers[0].Event, o.Event)
				v.Facts["txid"] = int(k.Min)
				return c, v
			}
		}
		if f0.Hdr.MinTXID != k.Min || f0.Hdr.MaxTXID != k.Max {
			return c, e.fail("l0-header", "level-0 file %s has header TXIDs %d-%d", k, f0.Hdr.MinTXID, f0.Hdr.MaxTXID)
		}
		st := applyLTX(prev, f0)
		if pg, ok := st.complete(); !ok {
			return c, e.fail("txid-incomplete", "composing level-0 files 1..%d leaves page %d undefined (commit=%d)", k.Min, pg, st.NPages)
		}
		cands := e.Led.Lookup(st.Hash())
		if len(cands) == 0 {
			v := e.fail("txid-not-committed-state", "TXID %d (composition of level-0 1..%d, %d pages) equals no committed state of the source (ledger has %d states)%s", k.Min, k.Min, st.NPages, len(e.Led.States), e.nearestState(st))
			v.Facts["txid"] = int(k.Min)
			return c, v
		}
		pick := -1
		for _, j := range cands {
			if j >= prevIdx {
				pick = j
				break
			}
		}
		if pick < 0 {
			v := e.fail("txid-not-monotone", "TXID %d corresponds to ledger state(s) %v, earlier than state %d of TXID %d", k.Min, cands, prevIdx, k.Min-1)
			return c, v
		}
		prevIdx = pick
		prev = st
		c.States[k.Min] = st
		c.Times[k.Min] = f0.Hdr.Timestamp
		c.Ledger[k.Min] = pick
		c.Files[k.Min] = f0
		c.N = k.Min
		next++
	}
	return c, nil
}

func sameLTXContent(a, b *ltxFile) bool {
	if a.Hdr.Commit != b.Hdr.Commit || len(a.Pages) != len(b.Pages) {
		return false
	}
	for pg, d := range a.Pages {
		if !bytes.Equal(d, b.Pages[pg]) {
			return false
		}
	}
	return true
}

// nearestState explains how a non-matching state relates to the ledger.
func (e *Env) nearestState(st *State) string {
	best, bestDiff := -1, 1<<30
	var bestPages []uint32
	for _, ls := range e.Led.States {
		if ls.NPages != st.NPages {
			continue
		}
		var diff []uint32
		for pg := uint32(1); pg <= st.NPages; pg++ {
			a, b := st.Pages[pg], ls.Pages[pg]
			if a == nil || b == nil || a.Sum != b.Sum {
				diff = append(diff, pg)
			}
		}
		if len(diff) < bestDiff {
			best, bestDiff, bestPages = ls.Index, len(diff), diff
		}
	}
	if best < 0 {
		return "; no ledger state has the same page count"
	}
	if len(bestPages) > 8 {
		bestPages = bestPages[:8]
	}
	// does every page exist in SOME ledger state (mixture of commits)?
	mixture := true
	for pg := uint32(1); pg <= st.NPages && mixture; pg++ {
		found := false
		for _, ls := range e.Led.States {
			if p := ls.Pages[pg]; p != nil && st.Pages[pg] != nil && p.Sum == st.Pages[pg].Sum {
				found = true
				break
			}
		}
		mixture = found
	}
	return fmt.Sprintf("; closest ledger state %d differs in %d pages %v; every page found in some state (mixture of commits): %v", best, bestDiff, bestPages, mixture)
}

// auditHigherLevels checks every archived file at level >= 1 against the
// independent composition of level-0 files (C06, C02).
func (e *Env) auditHigherLevels(c *Chain) *Violation {
	for _, ent := range e.FS.ArchSeq { // archive order: deterministic
		k := ent.Key
		if k.Level == 0 {
			continue
		}
		{
			f, err := decodeLTX(ent.Data)
			if err != nil {
				return e.fail("file-undecodable", "stored file %s does not decode: %v", k, err)
			}
			if f.Hdr.MinTXID != k.Min || f.Hdr.MaxTXID != k.Max {
				return e.fail("file-header", "file %s has header TXIDs %d-%d", k, f.Hdr.MinTXID, f.Hdr.MaxTXID)
			}
			if k.Max > c.N || k.Min < 1 {
				// written before the level-0 files it covers were uploaded (legal:
				// snapshots read the database directly); audited once they are.
				e.Res.Probes["audit:file_beyond_uploaded_l0"]++
				continue
			}
			var base *State
			if k.Min > 1 {
				base = c.States[k.Min-1]
			}
			got := applyLTX(base, f)
			want := c.States[k.Max]
			if got.Hash() != want.Hash() {
				v := e.fail("compaction-not-equivalent", "file %s is not equivalent to applying level-0 files %d..%d in order: pages=%d vs %d%s", k, k.Min, k.Max, got.NPages, want.NPages, diffStates(got, want))
				v.Facts["level"] = k.Level
				if k.Level == litestream.SnapshotLevel {
					v.Facts["db_file_ahead_of_pos"] = e.dbFileAhead(ent, got, want)
				}
				return v
			}
			if k.Level != litestream.SnapshotLevel {
				if f.Hdr.Timestamp != c.Times[k.Max] {
					v := e.fail("compaction-timestamp", "file %s carries timestamp %d, its newest input (TXID %d) has %d", k, f.Hdr.Timestamp, k.Max, c.Times[k.Max])
					return v
				}
				// a compacted file must not carry pages above its commit or duplicate pages
				for _, pg := range f.Order {
					if pg > f.Hdr.Commit {
						return e.fail("compaction-page-above-commit", "file %s contains page %d above its commit %d", k, pg, f.Hdr.Commit)
					}
				}
			} else if f.Hdr.Timestamp < c.Times[k.Max] {
				// a restore to a time between the two would start from this snapshot
				// and so contain a transaction replicated after that time
				v := e.fail("snapshot-older-than-content", "snapshot %s carries timestamp %d although its newest transaction (TXID %d) was replicated at %d: a timestamp restore in between returns data from after the requested time", k, f.Hdr.Timestamp, k.Max, c.Times[k.Max])
				return v
			}
		}
	}
	// per level: files in the order they were written are contiguous and non-overlapping
	perLevel := map[int][]*ArchEntry{}
	for _, ent := range e.FS.ArchSeq {
		if ent.Key.Level >= 1 && ent.Key.Level < litestream.SnapshotLevel {
			perLevel[ent.Key.Level] = append(perLevel[ent.Key.Level], ent)
		}
	}
	for lv := 1; lv < litestream.SnapshotLevel; lv++ {
		ents := perLevel[lv]
		var prevMax ltx.TXID
		for i, ent := range ents {
			if i == 0 {
				prevMax = ent.Key.Max
				if ent.Key.Min != 1 {
					return e.fail("level-first-not-1", "first file ever written at level %d starts at TXID %d", lv, ent.Key.Min)
				}
				continue
			}
			if ent.Key.Min == ents[i-1].Key.Min && ent.Key.Max == ents[i-1].Key.Max {
				continue // same file re-written
			}
			if ent.Key.Min <= prevMax {
				v := e.fail("level-overlap", "level %d: file %s was written although the level already holds a file ending at %d: the same TXIDs are compacted twice into one level", lv, ent.Key, prevMax)
				v.Facts["level"] = lv
				return v
			}
			if ent.Key.Min != prevMax+1 {
				v := e.fail("level-not-contiguous", "level %d: file %s written after a file ending at %d (expected to start at %d)", lv, ent.Key, prevMax, prevMax+1)
				v.Facts["level"] = lv
				return v
			}
			prevMax = ent.Key.Max
		}
	}
	return nil
}

func diffStates(a, b *State) string {
	var d []uint32
	n := a.NPages
	if b.NPages > n {
		n = b.NPages
	}
	for pg := uint32(1); pg <= n; pg++ {
		x, y := a.Pages[pg], b.Pages[pg]
		if x == nil || y == nil || x.Sum != y.Sum {
			d = append(d, pg)
			if len(d) >= 8 {
				break
			}
		}
	}
	return fmt.Sprintf("; differing pages %v", d)
}

// auditRestoreTXIDs restores sampled TXIDs with the real code on the current
// replica and requires the chain state.
func (e *Env) auditRestoreTXIDs(c *Chain, txids []ltx.TXID) *Violation {
	for _, n := range txids {
		want := c.States[n]
		if want == nil {
			continue
		}
		e.Res.Checks++
		img, err := e.restoreAlone(func(o *litestream.RestoreOptions) { o.TXID = n })
		if err != nil {
			if errors.Is(err, litestream.ErrTxNotAvailable) {
				continue // not reachable any more (retention); nothing is promised
			}
			e.Res.Probes["restore_txid_error"]++
			continue
		}
		if d := DiffImage(want, img, e.Led.PageSize); d != "" {
			v := e.fail("restore-txid-mismatch", "Restore(TXID=%d) differs from the composition of level-0 files 1..%d: %s", n, n, d)
			v.Facts["txid"] = int(n)
			return v
		}
	}
	return nil
}

// listingFiles returns the current replica listing as plain structs.
type pfile struct {
	Level    int
	Min, Max ltx.TXID
	Created  time.Time
}

func (e *Env) listing() []pfile {
	var out []pfile
	for _, fi := range e.FS.AllListing() {
		out = append(out, pfile{fi.Level, fi.MinTXID, fi.MaxTXID, fi.CreatedAt})
	}
	return out
}

// reachable computes, by brute force, the set of TXIDs at which a valid chain
// (starting at TXID 1, contiguous, each file extending the previous) can end,
// using only files accepted by ok.
func reachable(files []pfile, ok func(pfile) bool) map[ltx.TXID]bool {
	ends := map[ltx.TXID]bool{}
	var frontier []ltx.TXID
	for _, f := range files {
		if ok(f) && f.Min == 1 && !ends[f.Max] {
			ends[f.Max] = true
			frontier = append(frontier, f.Max)
		}
	}
	for len(frontier) > 0 {
		cur := frontier[0]
		frontier = frontier[1:]
		for _, f := range files {
			if ok(f) && f.Min <= cur+1 && f.Max > cur && !ends[f.Max] {
				ends[f.Max] = true
				frontier = append(frontier, f.Max)
			}
		}
	}
	return ends
}

func checkPlanShape(plan []*ltx.FileInfo) string {
	if len(plan) == 0 {
		return "empty plan"
	}
	if plan[0].MinTXID != 1 {
		return fmt.Sprintf("plan starts at TXID %d, not 1", plan[0].MinTXID)
	}
	cur := plan[0].MaxTXID
	for _, f := range plan[1:] {
		if f.MinTXID > cur+1 {
			return fmt.Sprintf("gap: file %d-%d follows %d", f.MinTXID, f.MaxTXID, cur)
		}
		if f.MaxTXID <= cur {
			return fmt.Sprintf("file %d-%d does not extend %d", f.MinTXID, f.MaxTXID, cur)
		}
		cur = f.MaxTXID
	}
	return ""
}

// auditPlans evaluates litestream.CalcRestorePlan (real code) on the current
// listing against the brute-force reachability model (C08).
func (e *Env) auditPlans(maxTargets int) *Violation {
	return e.auditPlansOn(file.NewReplicaClient(e.RepDir), e.listing(), maxTargets)
}

func (e *Env) auditPlansOn(client litestream.ReplicaClient, files []pfile, maxTargets int) *Violation {
	if len(files) == 0 {
		return nil
	}
	ctx := context.Background()
	logger := slog.Default()
	all := func(pfile) bool { return true }
	ends := reachable(files, all)
	var maxEnd, maxFile ltx.TXID
	for t := range ends {
		if t > maxEnd {
			maxEnd = t
		}
	}
	var targets []ltx.TXID
	seen := map[ltx.TXID]bool{}
	for _, f := range files {
		if f.Max > maxFile {
			maxFile = f.Max
		}
		for _, t := range []ltx.TXID{f.Max, f.Min, f.Max + 1} {
			if t >= 1 && !seen[t] {
				seen[t] = true
				targets = append(targets, t)
			}
		}
	}
	sort.Slice(targets, func(i, j int) bool { return targets[i] < targets[j] })
	if len(targets) > maxTargets {
		// keep a deterministic spread
		step := float64(len(targets)) / float64(maxTargets)
		var t2 []ltx.TXID
		for i := 0; i < maxTargets; i++ {
			t2 = append(t2, targets[int(float64(i)*step)])
		}
		targets = t2
	}
	// latest
	e.Res.Checks++
	plan, err := litestream.CalcRestorePlan(ctx, client, 0, time.Time{}, logger)
	gapBeyond := false
	for _, f := range files {
		if f.Min > maxEnd+1 {
			gapBeyond = true
		}
	}
	switch {
	case err == nil:
		if s := checkPlanShape(plan); s != "" {
			return e.fail("plan-invalid", "plan for latest is not a valid chain: %s (%s)", s, planStr(plan))
		}
		if gapBeyond {
			return e.fail("plan-ignores-gap", "plan for latest ends at %d although files exist beyond a gap (max file TXID %d) (%s)", plan[len(plan)-1].MaxTXID, maxFile, listStr(files))
		}
		if plan[len(plan)-1].MaxTXID != maxEnd {
			return e.fail("plan-stops-early", "plan for latest ends at %d, a valid chain reaches %d (%s)", plan[len(plan)-1].MaxTXID, maxEnd, listStr(files))
		}
	default:
		if maxEnd > 0 && !gapBeyond {
			return e.fail("plan-missed", "planner fails for latest (%v) although a valid chain to %d exists (%s)", err, maxEnd, listStr(files))
		}
	}
	// by TXID
	for _, t := range targets {
		e.Res.Checks++
		plan, err := litestream.CalcRestorePlan(ctx, client, t, time.Time{}, logger)
		if err == nil {
			if s := checkPlanShape(plan); s != "" {
				return e.fail("plan-invalid", "plan for TXID %d is not a valid chain: %s (%s)", t, s, planStr(plan))
			}
			if plan[len(plan)-1].MaxTXID != t {
				return e.fail("plan-wrong-end", "plan for TXID %d ends at %d (%s)", t, plan[len(plan)-1].MaxTXID, planStr(plan))
			}
		} else if ends[t] {
			v := e.fail("plan-missed", "planner fails for TXID %d (%v) although a valid chain exists (%s)", t, err, listStr(files))
			v.Facts["target"] = int(t)
			return v
		}
	}
	// by timestamp
	var times []time.Time
	seenT := map[int64]bool{}
	for _, f := range files {
		ms := f.Created.UnixMilli()
		for _, d := range []int64{-1, 0, 1} {
			if !seenT[ms+d] {
				seenT[ms+d] = true
				times = append(times, time.UnixMilli(ms+d).UTC())
			}
		}
	}
	sort.Slice(times, func(i, j int) bool { return times[i].Before(times[j]) })
	if len(times) > maxTargets {
		step := float64(len(times)) / float64(maxTargets)
		var t2 []time.Time
		for i := 0; i < maxTargets; i++ {
			t2 = append(t2, times[int(float64(i)*step)])
		}
		times = t2
	}
	for _, T := range times {
		e.Res.Checks++
		okf := func(f pfile) bool { return f.Created.Before(T) }
		endsT := reachable(files, okf)
		plan, err := litestream.CalcRestorePlan(ctx, client, 0, T, logger)
		if err == nil {
			if s := checkPlanShape(plan); s != "" {
				return e.fail("plan-invalid", "plan for timestamp %s is not a valid chain: %s (%s)", T.Format(time.RFC3339Nano), s, planStr(plan))
			}
			for _, f := range plan {
				if !f.CreatedAt.Before(T) {
					return e.fail("plan-file-after-timestamp", "plan for timestamp %s uses file L%d %d-%d created at %s", T.Format(time.RFC3339Nano), f.Level, f.MinTXID, f.MaxTXID, f.CreatedAt.Format(time.RFC3339Nano))
				}
			}
		} else if len(endsT) > 0 {
			v := e.fail("plan-missed", "planner fails for timestamp %s (%v) although a valid chain of earlier files exists (%s)", T.Format(time.RFC3339Nano), err, listStr(files))
			return v
		}
	}
	return nil
}

func planStr(plan []*ltx.FileInfo) string {
	s := "plan:"
	for _, f := range plan {
		s += fmt.Sprintf(" L%d[%d-%d]", f.Level, f.MinTXID, f.MaxTXID)
	}
	return s
}

func listStr(files []pfile) string {
	s := "files:"
	for i, f := range files {
		if i > 40 {
			s += " ..."
			break
		}
		s += fmt.Sprintf(" L%d[%d-%d]@%d", f.Level, f.Min, f.Max, f.Created.UnixMilli())
	}
	return s
}

// auditTimestamps checks timestamp restores against the chain (C15).
func (e *Env) auditTimestamps(c *Chain, maxT int) *Violation {
	if c.N == 0 {
		return nil
	}
	files := e.listing()
	l0Present := map[ltx.TXID]bool{}
	for _, f := range files {
		if f.Level == 0 {
			l0Present[f.Min] = true
		}
	}
	allL0 := true
	for n := ltx.TXID(1); n <= c.N; n++ {
		if !l0Present[n] {
			allL0 = false
		}
	}
	var cand []int64
	seen := map[int64]bool{}
	add := func(ms int64) {
		if !seen[ms] {
			seen[ms] = true
			cand = append(cand, ms)
		}
	}
	var prev int64
	for n := ltx.TXID(1); n <= c.N; n++ {
		t := c.Times[n]
		add(t - 1)
		add(t)
		add(t + 1)
		if n > 1 && t-prev > 3 {
			add(prev + (t-prev)/2)
		}
		prev = t
	}
	add(c.Times[1] - 5000)
	add(c.Times[c.N] + 5000)
	sort.Slice(cand, func(i, j int) bool { return cand[i] < cand[j] })
	if len(cand) > maxT {
		step := float64(len(cand)) / float64(maxT)
		var c2 []int64
		for i := 0; i < maxT; i++ {
			c2 = append(c2, cand[int(float64(i)*step)])
		}
		cand = c2
	}
	// files on the replica that cover TXIDs whose level-0 file is not uploaded yet
	// (a snapshot taken before the upload) cannot be judged against the chain:
	// only timestamps at or before the earliest such file are audited.
	cutoff := int64(1) << 62
	for _, f := range files {
		if f.Max > c.N && f.Created.UnixMilli() < cutoff {
			cutoff = f.Created.UnixMilli()
		}
	}
	lastN := ltx.TXID(0)
	for _, ms := range cand {
		if ms > cutoff {
			e.Res.Probes["timestamp_skipped_beyond_chain"]++
			continue
		}
		T := time.UnixMilli(ms).UTC()
		e.Res.Checks++
		img, err := e.restoreAlone(func(o *litestream.RestoreOptions) { o.Timestamp = T })
		// expected with all L0 present: max n with t_n < T
		var want ltx.TXID
		for n := ltx.TXID(1); n <= c.N; n++ {
			if c.Times[n] < ms {
				want = n
			}
		}
		if err != nil {
			if allL0 && want > 0 {
				v := e.fail("timestamp-restore-error", "Restore(timestamp=%d) failed (%v) although TXID %d was replicated at %d < T and every level-0 file is present", ms, err, want, c.Times[want])
				return v
			}
			continue
		}
		if want == 0 {
			return e.fail("timestamp-before-first", "Restore(timestamp=%d) succeeded although the first backup is at %d", ms, c.Times[1])
		}
		h := StateFromImage(img, e.Led.PageSize).Hash()
		var got ltx.TXID
		// find the highest n with t_n < T whose state equals the image; and whether any n with t_n >= T equals it
		for n := ltx.TXID(1); n <= c.N; n++ {
			if c.States[n].Hash() == h && c.Times[n] < ms {
				got = n
			}
		}
		if got == 0 {
			later := ltx.TXID(0)
			for n := ltx.TXID(1); n <= c.N; n++ {
				if c.States[n].Hash() == h {
					later = n
				}
			}
			v := e.fail("timestamp-restore-too-new", "Restore(timestamp=%d) returned a database that is not the state of any TXID replicated before T (equals TXID %d replicated at %d; expected TXID %d at %d)", ms, later, c.Times[later], want, c.Times[want])
			v.Facts["equals_txid"] = int(later)
			v.Facts["snapshot_db_file_ahead"] = e.planSnapshotAhead(c, time.UnixMilli(ms).UTC())
			return v
		}
		// several TXIDs can share a state (no-op syncs): compare states, not numbers
		if allL0 && c.States[got].Hash() != c.States[want].Hash() {
			return e.fail("timestamp-restore-not-latest", "Restore(timestamp=%d) returned TXID %d (t=%d); with all level-0 files present the last transaction before T is TXID %d (t=%d)", ms, got, c.Times[got], want, c.Times[want])
		}
		if got < lastN && c.States[got].Hash() != c.States[lastN].Hash() {
			return e.fail("timestamp-not-monotone", "a later timestamp (%d) restored an earlier state (TXID %d) than an earlier timestamp did (TXID %d)", ms, got, lastN)
		}
		if got > lastN {
			lastN = got
		}
	}
	return nil
}

// dbFileAhead reports whether a snapshot that differs from the state of the
// TXID it advertises differs only where it copied, from the main database file,
// pages of commits later than that TXID: every differing page of the snapshot
// equals the page the database file held when the upload began, and that
// content first exists in the ledger after the last commit equal to the
// advertised state. (Litestream's read mark can be ahead of its copy cursor, so
// a checkpoint may back-fill frames it has not copied yet; see finding F7.)
func (e *Env) dbFileAhead(ent *ArchEntry, got, want *State) bool {
	img := ent.DBImage
	if img == nil {
		return false
	}
	// last ledger commit that equals the advertised state
	at := -1
	for i, ls := range e.Led.States {
		if ls.NPages == want.NPages && ls.Hash() == want.Hash() {
			at = i
		}
	}
	if at < 0 {
		return false
	}
	later := func(pg uint32, sum [32]byte) bool {
		first := -1
		for i, ls := range e.Led.States {
			if p := ls.Pages[pg]; p != nil && p.Sum == sum {
				first = i
				break
			}
		}
		return first > at
	}
	n := got.NPages
	if want.NPages > n {
		n = want.NPages
	}
	differ := 0
	for pg := uint32(1); pg <= n; pg++ {
		g, w := got.Pages[pg], want.Pages[pg]
		if g != nil && w != nil && g.Sum == w.Sum {
			continue
		}
		if g == nil && w == nil {
			continue
		}
		differ++
		if g == nil {
			// the snapshot is shorter than the advertised state: the file must
			// already have been truncated to a later commit's size
			if img.NPages >= pg {
				return false
			}
			continue
		}
		ip := img.Pages[pg]
		if ip == nil || ip.Sum != g.Sum || !later(pg, g.Sum) {
			return false
		}
	}
	return differ > 0
}

// planSnapshotAhead reports whether the restore plan for timestamp T starts
// with a snapshot that is newer than the TXID it advertises because it copied
// database-file pages of later commits (finding F7; see dbFileAhead).
func (e *Env) planSnapshotAhead(c *Chain, T time.Time) bool {
	plan, err := litestream.CalcRestorePlan(context.Background(), file.NewReplicaClient(e.RepDir), 0, T, slog.Default())
	if err != nil || len(plan) == 0 || plan[0].Level != litestream.SnapshotLevel {
		return false
	}
	k := FileKey{plan[0].Level, plan[0].MinTXID, plan[0].MaxTXID}
	vers := e.FS.Arch[k]
	if len(vers) == 0 || k.Max > c.N {
		return false
	}
	ent := vers[len(vers)-1]
	f, err := decodeLTX(ent.Data)
	if err != nil {
		return false
	}
	got := applyLTX(nil, f)
	want := c.States[k.Max]
	if got.Hash() == want.Hash() {
		return false
	}
	return e.dbFileAhead(ent, got, want)
}
