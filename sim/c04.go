package sim

import (
	"bytes"
	"context"
	"fmt"
	"os"
	"path/filepath"

	"github.com/benbjohnson/litestream"
	"github.com/superfly/ltx"
)

// C04 — when continuity with the WAL cannot be proven, litestream re-snapshots.
//
// Disturbance ops (all in-process; crash variants live in the NODE engine):
//   ls_restart      clean Close of the instance, application steps while down, new instance (new process)
//   ls_stop_start   Close + Open of the SAME DB object (IPC stop/start), application steps in between
//   ls_reset        DB.ResetLocalState while running (what auto-recover calls)
// Down-time steps additionally include: rm_meta, save_copy, replace_older, replace_restore, replace_unrelated.

func (e *Env) doDownSteps(steps []Step) {
	for i := range steps {
		st := &steps[i]
		var r string
		switch st.K {
		case "rm_meta":
			meta := filepath.Join(filepath.Dir(e.DBPath), "."+filepath.Base(e.DBPath)+litestream.MetaDirSuffix)
			// fact for finding F31: the replica holds a snapshot or compacted file whose
			// TXIDs lie above its newest level-0 file at the moment the local state is lost
			var l0max, hiMax ltx.TXID
			for _, fi := range e.FS.AllListing() {
				if fi.Level == 0 {
					if fi.MaxTXID > l0max {
						l0max = fi.MaxTXID
					}
				} else if fi.MaxTXID > hiMax {
					hiMax = fi.MaxTXID
				}
			}
			if hiMax > l0max {
				e.Res.Probes["meta_lost_with_higher_level_ahead"]++
			}
			r = errStr(os.RemoveAll(meta))
			e.Res.Probes["down:rm_meta"]++
		case "save_copy":
			img, err := SQLiteRecoveredImage(e.DBPath, e.Scratch)
			if err == nil {
				e.saved = append(e.saved, img)
			}
			r = errStr(err)
		case "replace_older", "replace_restore", "replace_unrelated":
			r = e.replaceDB(st)
		default:
			r = e.appDo(st)
		}
		e.event("  down app %s%s -> %s", st.K, st.Mode, r)
		if err := e.observe("app"); err != nil && e.Res.Trouble == "" {
			e.Res.Trouble = err.Error()
		}
		e.restamp()
	}
}

// replaceDB replaces the database file by another version while nothing has it open.
func (e *Env) replaceDB(st *Step) string {
	var img []byte
	switch st.K {
	case "replace_older":
		if len(e.saved) == 0 {
			return "noop:no-copy"
		}
		img = e.saved[st.N%len(e.saved)]
	case "replace_restore":
		b, err := e.restoreAlone(nil)
		if err != nil {
			return "noop:" + shortErr(err)
		}
		img = b
	case "replace_unrelated":
		p := filepath.Join(e.Scratch, "unrelated.db")
		for _, s := range []string{"", "-wal", "-shm"} {
			os.Remove(p + s)
		}
		cfg := e.Prog.Cfg
		cfg.InitRows = 3 + st.N%20
		cfg.Tables = 1
		a, err := CreateAppDB(p, &cfg, uint64(st.N)+77)
		if err != nil {
			return "noop:" + shortErr(err)
		}
		a.Close()
		b, err := SQLiteRecoveredImage(p, e.Scratch)
		if err != nil {
			return "noop:" + shortErr(err)
		}
		img = b
	}
	wasOpen := e.App.db != nil
	e.App.Close()
	for _, s := range []string{"-wal", "-shm"} {
		os.Remove(e.DBPath + s)
	}
	if err := os.WriteFile(e.DBPath, img, 0o644); err != nil {
		return errStr(err)
	}
	if err := e.Led.Rebase("app"); err != nil {
		e.Res.Trouble = "ledger rebase: " + err.Error()
	}
	e.Res.Probes["down:"+st.K]++
	if wasOpen {
		if err := e.App.Open(); err != nil {
			return errStr(err)
		}
	}
	return "ok"
}

func init() {
	extraOps["ls_restart"] = func(e *Env, op *Op) (string, bool) {
		res := "down"
		if e.LS != nil {
			res = errStr(e.stopLS(context.Background()))
		}
		e.observe("ls")
		e.doDownSteps(op.Steps)
		if err := e.startLS(); err != nil {
			return res + "/start:" + errStr(err), false
		}
		e.Res.Probes["restart"]++
		e.Res.Probes["reset_since_restart"] = 0
		return res + "/started", false
	}
	extraOps["ls_stop_start"] = func(e *Env, op *Op) (string, bool) {
		if e.LS == nil {
			return "noop:down", false
		}
		ctx := context.Background()
		r1 := errStr(e.LS.Store.DisableDB(ctx, e.DBPath))
		e.observe("ls")
		e.doDownSteps(op.Steps)
		r2 := errStr(e.LS.Store.EnableDB(ctx, e.DBPath))
		e.Res.Probes["stop_start"]++
		return r1 + "/" + r2, false
	}
	extraOps["ls_reset"] = func(e *Env, op *Op) (string, bool) {
		if e.LS == nil {
			return "noop:down", false
		}
		e.Res.Probes["reset_local_state"]++
		e.Res.Probes["reset_since_restart"]++
		return errStr(e.LS.DB.ResetLocalState(context.Background())), false
	}
}

// checkReplicaAdvanced: after a successful Replica.Sync the replica position
// equals the database position and the store really holds that TXID with the
// bytes of the local level-0 file ("never reports success while silently stopped").
func (e *Env) checkReplicaAdvanced() *Violation {
	if e.LS == nil {
		return nil
	}
	db := e.LS.DB
	if db.SQLDB() == nil {
		// this instance has not looked at the database yet (no DB.Sync since it
		// was started): a bare Replica.Sync has nothing to report about; the
		// first DB.Sync runs the start-up checks (database behind replica, ...)
		return nil
	}
	dpos, err := db.Pos()
	if err != nil || dpos.TXID == 0 {
		return nil
	}
	rpos := db.Replica.Pos()
	e.Res.Checks++
	if rpos.TXID != dpos.TXID {
		v := e.fail("ack-replica-behind", "replica sync reported success but replica position %d != database position %d", rpos.TXID, dpos.TXID)
		return v
	}
	local, err := os.ReadFile(db.LTXPath(0, dpos.TXID, dpos.TXID))
	if err != nil {
		return nil
	}
	remote, err := e.FS.ReadObject(0, dpos.TXID, dpos.TXID)
	if err != nil {
		v := e.fail("ack-without-upload", "replica sync reported success at TXID %d but the replica does not hold that file: %v", dpos.TXID, err)
		v.Facts["txid"] = int(dpos.TXID)
		return v
	}
	if !bytes.Equal(local, remote) {
		lf, _ := decodeLTX(local)
		rf, _ := decodeLTX(remote)
		if lf == nil || rf == nil || !sameLTXContent(lf, rf) {
			v := e.fail("ack-without-upload", "replica sync reported success at TXID %d but the replica holds a different file under that TXID (local state was re-numbered; replica max TXID %d)", dpos.TXID, e.replicaMaxTXID())
			v.Facts["txid"] = int(dpos.TXID)
			v.Facts["stale_remote"] = true
			return v
		}
	}
	return nil
}

func (e *Env) replicaMaxTXID() ltx.TXID {
	var m ltx.TXID
	for _, f := range e.FS.Listing(0) {
		if f.MaxTXID > m {
			m = f.MaxTXID
		}
	}
	return m
}

var downModes = []string{"PASSIVE", "FULL", "RESTART", "TRUNCATE"}

// genDownSteps draws application activity while litestream is down, biased to
// the dangerous shapes.
func genDownSteps(r *Rng, cfg *Config, allowReplace bool) []Step {
	n := r.Pick([]int{2, 3, 3, 2, 2, 1, 1, 1, 1}) // 0..8
	var out []Step
	if r.Chance(0.12) {
		// the application commits, closes its last connection (SQLite checkpoints
		// and deletes the WAL), comes back and writes a WAL shorter than the old one
		t := genTxn(r, cfg)
		t.Rollback = false
		out = append(out, t, Step{K: "conn_cycle"}, Step{K: "txn", Stmts: []Stmt{{K: "upd", T: 0, Key: r.Intn(40), N: 1, Sz: 10, Seed: r.Uint64() >> 1}}})
	}
	for i := 0; i < n; i++ {
		switch r.Pick([]int{40, 22, 6, 4, 3, 3, 2, 2, 2}) {
		case 0:
			t := genTxn(r, cfg)
			t.Rollback = false
			if r.Chance(0.4) { // short write: few frames
				t.Stmts = []Stmt{{K: "upd", T: 0, Key: r.Intn(40), N: 1, Sz: 10, Seed: r.Uint64() >> 1}}
			} else if r.Chance(0.3) { // long write
				t.Stmts = append(t.Stmts, Stmt{K: "ins", T: 0, Key: r.Intn(300), N: r.Range(20, 60), Sz: 300, Seed: r.Uint64() >> 1})
			}
			out = append(out, t)
		case 1:
			out = append(out, Step{K: "ckpt", Mode: PickOf(r, downModes)})
		case 2:
			out = append(out, Step{K: "conn_cycle"}) // closes the last connection: SQLite checkpoints and deletes the WAL
		case 3:
			out = append(out, Step{K: "vacuum"})
		case 4:
			out = append(out, Step{K: "rm_meta"})
		case 5:
			out = append(out, Step{K: "save_copy"})
		case 6:
			if allowReplace {
				out = append(out, Step{K: "replace_older", N: r.Intn(8)})
			}
		case 7:
			if allowReplace {
				out = append(out, Step{K: "replace_restore"})
			}
		default:
			if allowReplace {
				out = append(out, Step{K: "replace_unrelated", N: r.Intn(1000)})
			}
		}
	}
	return out
}

func genDisturbance(r *Rng, cfg *Config, wReset int) Op {
	switch r.Pick([]int{50, 35, wReset}) {
	case 0:
		return Op{Kind: "ls_restart", Steps: genDownSteps(r, cfg, true)}
	case 1:
		return Op{Kind: "ls_stop_start", Steps: genDownSteps(r, cfg, false)}
	default:
		return Op{Kind: "ls_reset"}
	}
}

func genC04(r *Rng, tier string, idx int) *Program {
	p := &Program{Property: "C04", Engine: "HIST"}
	p.Cfg = genConfig(r)
	// Known finding F3 (run-time reset) is excluded from 70% of the runs so that
	// other violations surface in runs that cannot match its signature.
	wReset := 0
	if idx%10 >= 7 {
		wReset = 15
		p.Variant = "with-reset"
	}
	n := r.Range(2, 10)
	p.Ops = genHistory(r, &p.Cfg, n, lsWeightsC01, 0.1)
	p.Ops = append(p.Ops, Op{Kind: "ls_sync_wait"})
	blocks := r.Range(1, 3)
	for b := 0; b < blocks; b++ {
		if r.Chance(0.3) {
			p.Ops = append(p.Ops, appOp(Step{K: "save_copy"}))
		}
		if r.Chance(0.5) {
			// commits litestream has not copied yet when it is stopped (its final sync
			// in Close copies them - or a kill leaves them)
			for k := r.Range(1, 2); k > 0; k-- {
				t := genTxn(r, &p.Cfg)
				t.Rollback = false
				p.Ops = append(p.Ops, appOp(t))
			}
		}
		p.Ops = append(p.Ops, genDisturbance(r, &p.Cfg, wReset))
		m := r.Range(0, 6)
		p.Ops = append(p.Ops, genHistory(r, &p.Cfg, m, lsWeightsC01, 0.05)...)
		p.Ops = append(p.Ops, Op{Kind: "ls_sync_wait"})
		if r.Chance(0.3) {
			p.Ops = append(p.Ops, appOp(genTxn(r, &p.Cfg)), Op{Kind: "ls_sync_wait"})
		}
	}
	return p
}

func runC04(t testingT, p *Program) *Result {
	return RunHIST(t, p, func(e *Env) {
		e.OnAck = func(e *Env, i int) *Violation {
			if v := e.checkAckC01(i); v != nil {
				return v
			}
			return e.checkReplicaAdvanced()
		}
		e.AfterOp = func(e *Env, i int, op *Op, res string) *Violation {
			if op.Kind == "app" && op.Step != nil && op.Step.K == "save_copy" {
				return nil
			}
			if op.Kind == "ls_replica_sync" && res == "ok" {
				return e.checkReplicaAdvanced()
			}
			return nil
		}
		e.AtEnd = func(e *Env) *Violation {
			// a disturbed history must still leave every TXID a committed state,
			// numbered above everything already on the replica (no TXID reuse).
			_, v := e.buildChain()
			if v != nil && (v.Class == "txid-reused" || v.Class == "l0-gap") {
				return v
			}
			return nil
		}
	})
}

func init() {
	// "save_copy" as a top-level app op
	origDo := extraOps
	_ = origDo
	register(&Prop{ID: "C04", Engine: "HIST", Gen: genC04, Run: runC04,
		Nontrivial: func(res *Result) bool {
			return res.Acks > 0 && (res.Probes["restart"]+res.Probes["stop_start"]+res.Probes["reset_local_state"]) > 0
		}})
}

var _ = fmt.Sprint
