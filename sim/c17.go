package sim

import (
	"bytes"
	"context"
	"encoding/binary"
	"fmt"
	"io"
	"log/slog"
	"os"
	"path/filepath"
	"strings"
	"time"

	"github.com/benbjohnson/litestream"
	"github.com/benbjohnson/litestream/file"
	"github.com/superfly/ltx"
)

// C17 — databases crossing the 1 GiB lock page replicate and restore correctly.
//
// A real small database is inflated to just below SQLite's lock-byte page by
// extending the file sparsely and patching the in-header page count; SQLite
// accepts it (the added pages are unused) and the next inserts allocate pages
// across the boundary, skipping the lock page. Configuration x history search;
// there is no fault dimension.

const pendingByte = 0x40000000

func genC17(r *Rng, tier string, idx int) *Program {
	p := &Program{Property: "C17", Engine: "HIST"}
	p.Cfg = genConfig(r)
	sizes := pageSizes
	placements := []int64{2, 10, 70} // pages below the lock page at inflation: crossed by the first growth, by the chunked growth, never (control)
	if tier == "thorough" {
		p.Cfg.PageSize = sizes[idx%len(sizes)]
		p.Params = map[string]int64{"below": placements[(idx/len(sizes))%len(placements)]}
	} else {
		p.Cfg.PageSize = []int{65536, 4096, 8192, 65536}[idx%4]
		p.Params = map[string]int64{"below": placements[[]int{0, 1, 0, 2}[idx%4]]}
	}
	p.Cfg.AutoVacuum = 0
	p.Cfg.AppAutoCkpt = 0
	p.Cfg.Tables = 1
	p.Cfg.InitRows = 5
	p.Cfg.InitRowSize = 100
	p.Cfg.MinCheckpointPageN = 1 << 30 // no litestream checkpoints: the source stays exactly what was copied
	p.Cfg.TruncatePageN = 0
	p.Cfg.CheckpointMs = 0
	p.Cfg.MaxSyncWALBytes = 0
	p.Cfg.LevelMs = []int64{1000}
	p.Cfg.L0RetentionMs = 0
	p.Cfg.StepGapMs = 1500
	p.Params["grow1"] = int64(r.Range(4, 12))  // pages of payload added in the first growth (one sync)
	p.Params["grow2"] = int64(r.Range(8, 30)) // second growth, chunked sync
	return p
}

func runC17(t testingT, p *Program) *Result {
	res := &Result{Seed: p.Seed, Probes: map[string]int{}, FaultsHit: map[string]int{}}
	wall := time.Now()
	base := os.Getenv("VERIF_TMP")
	if base == "" {
		base = "/dev/shm"
	}
	dir := filepath.Join(base, fmt.Sprintf("verif-%d-%d", os.Getpid(), runCounter.Add(1)))
	os.RemoveAll(dir)
	os.MkdirAll(dir, 0o755)
	defer os.RemoveAll(dir)
	prev := slog.Default()
	slog.SetDefault(slog.New(discardHandler{}))
	defer slog.SetDefault(prev)
	var events []string
	ev := func(f string, a ...any) { events = append(events, fmt.Sprintf(f, a...)) }
	fail := func(class, f string, a ...any) {
		if res.Violation == nil {
			res.Violation = &Violation{Property: "C17", Class: class, Msg: strings.ReplaceAll(fmt.Sprintf(f, a...), dir, "$D"), Facts: map[string]any{"page_size": p.Cfg.PageSize, "below": p.Params["below"]}}
		}
	}
	ps := p.Cfg.PageSize
	lockPgno := uint32(pendingByte/ps) + 1
	dbPath := filepath.Join(dir, "db")
	repDir := filepath.Join(dir, "replica")
	app, err := CreateAppDB(dbPath, &p.Cfg, p.Seed)
	if err != nil {
		res.Trouble = "create: " + err.Error()
		return res
	}
	app.Do(&Step{K: "ckpt", Mode: "TRUNCATE"})
	app.Close()
	// inflate
	n0 := int64(lockPgno) - p.Params["below"]
	if err := inflateDB(dbPath, ps, n0); err != nil {
		res.Trouble = "inflate: " + err.Error()
		return res
	}
	if err := app.Open(); err != nil {
		res.Trouble = "reopen: " + err.Error()
		return res
	}
	defer app.Close()
	ctx := context.Background()
	db := litestream.NewDB(dbPath)
	db.MonitorInterval = 0
	db.BusyTimeout = 0
	db.MinCheckpointPageN = p.Cfg.MinCheckpointPageN
	db.CheckpointInterval = 0
	client := file.NewReplicaClient(repDir)
	rep := litestream.NewReplicaWithClient(db, client)
	client.Replica = rep
	rep.MonitorEnabled = false
	db.Replica = rep
	levels := litestream.CompactionLevels{{Level: 0}, {Level: 1, Interval: time.Second}}
	store := litestream.NewStore([]*litestream.DB{db}, levels)
	store.CompactionMonitorEnabled = false
	store.L0RetentionCheckInterval = 0
	store.HeartbeatCheckInterval = 0
	store.SetL0Retention(0)
	if err := store.Open(ctx); err != nil {
		res.Trouble = "store open: " + err.Error()
		return res
	}
	closed := false
	defer func() {
		if !closed {
			store.Close(ctx)
		}
	}()
	step := func(name string, err error) bool {
		ev("%s -> %s", name, errStr(err))
		res.Ops++
		if err != nil {
			fail("operation-failed", "%s failed on a database around the lock page (page size %d, %d pages): %v", name, ps, n0, err)
			return false
		}
		return true
	}
	grow := func(pages int64, key int) {
		st := &Step{K: "txn", Stmts: []Stmt{{K: "ins", T: 0, Key: key, N: int(pages), Sz: ps - ps/8, Seed: uint64(key) + 9}}}
		r := app.Do(st)
		ev("grow %d rows -> %s", pages, r)
	}
	// 1. snapshot of the inflated database
	if !step("sync(snapshot)", db.SyncAndWait(ctx)) {
		goto done
	}
	// 2. growth across the boundary inside one sync (incremental + growth fill)
	grow(p.Params["grow1"], 1000)
	if !step("sync(growth across the lock page)", db.SyncAndWait(ctx)) {
		goto done
	}
	// 3. second growth, chunked sync
	db.MaxSyncWALBytes = int64(ps) * 3
	grow(p.Params["grow2"]/2, 2000)
	grow(p.Params["grow2"]-p.Params["grow2"]/2, 3000)
	if !step("sync(chunked growth)", db.SyncAndWait(ctx)) {
		goto done
	}
	// 4. compaction and snapshot
	{
		_, err := store.CompactDB(ctx, db, levels[1])
		if !step("compact(L1)", err) {
			goto done
		}
		_, err = db.Snapshot(ctx)
		if !step("snapshot", err) {
			goto done
		}
		app.Do(&Step{K: "txn", Stmts: []Stmt{{K: "upd", T: 0, Key: 1000, N: 3, Sz: 64, Seed: 5}}})
		if !step("sync(after snapshot)", db.SyncAndWait(ctx)) {
			goto done
		}
	}
	// oracle 1: no replicated or staged file contains the lock page
	for _, root := range []string{repDir, db.LTXDir()} {
		filepath.Walk(root, func(path string, info os.FileInfo, err error) error {
			if err != nil || info.IsDir() || !strings.HasSuffix(path, ".ltx") || res.Violation != nil {
				return nil
			}
			res.Checks++
			res.Probes["ltx_files_scanned"]++
			has, npages, derr := ltxHasPage(path, lockPgno)
			res.Probes["ltx_pages_scanned"] += npages
			if derr != nil {
				fail("ltx-undecodable", "%s does not decode: %v", path, derr)
			} else if has {
				fail("lock-page-replicated", "%s contains the lock page %d (page size %d)", path, lockPgno, ps)
			}
			return nil
		})
	}
	if res.Violation != nil {
		goto done
	}
	// oracle 2: restore == source off the lock page; lock page all zero
	{
		out := filepath.Join(dir, "restored.db")
		r2 := litestream.NewReplicaWithClient(nil, file.NewReplicaClient(repDir))
		opt := litestream.NewRestoreOptions()
		opt.OutputPath = out
		if !step("restore", r2.Restore(ctx, opt)) {
			goto done
		}
		store.Close(ctx)
		closed = true
		app.Close()
		msg, commit := compareWithSource(dbPath, out, ps, lockPgno)
		res.Checks++
		res.Probes["pages_compared"] = int(commit)
		res.Probes["crossed_lock_page"] = 0
		if commit > lockPgno {
			res.Probes["crossed_lock_page"] = 1
		}
		ev("compared %d pages, lock page %d", commit, lockPgno)
		if msg != "" {
			fail("restore-differs", "restored database differs from the source (page size %d, lock page %d, %d pages): %s", ps, lockPgno, commit, msg)
		}
	}
done:
	res.Events = events
	res.WallMs = time.Since(wall).Milliseconds()
	return res
}

func inflateDB(path string, ps int, pages int64) error {
	f, err := os.OpenFile(path, os.O_RDWR, 0)
	if err != nil {
		return err
	}
	defer f.Close()
	if err := f.Truncate(pages * int64(ps)); err != nil {
		return err
	}
	var hdr [100]byte
	if _, err := f.ReadAt(hdr[:], 0); err != nil {
		return err
	}
	binary.BigEndian.PutUint32(hdr[28:], uint32(pages))
	copy(hdr[92:96], hdr[24:28]) // version-valid-for = change counter: the in-header size is trusted
	_, err = f.WriteAt(hdr[:], 0)
	return err
}

func ltxHasPage(path string, pgno uint32) (bool, int, error) {
	f, err := os.Open(path)
	if err != nil {
		return false, 0, err
	}
	defer f.Close()
	dec := ltx.NewDecoder(f)
	if err := dec.DecodeHeader(); err != nil {
		return false, 0, err
	}
	data := make([]byte, dec.Header().PageSize)
	n := 0
	for {
		var ph ltx.PageHeader
		if err := dec.DecodePage(&ph, data); err == io.EOF {
			break
		} else if err != nil {
			return false, n, err
		}
		n++
		if ph.Pgno == pgno {
			return true, n, nil
		}
	}
	return false, n, dec.Close()
}

// compareWithSource streams the source's committed state (database file overlaid
// with the committed WAL frames, decoded independently) against the restored file.
func compareWithSource(dbPath, restored string, ps int, lockPgno uint32) (string, uint32) {
	wal, _ := os.ReadFile(dbPath + "-wal")
	w := decodeWAL(wal)
	m, commit, _ := expectedPageMap(w, 0, 0)
	src, err := os.Open(dbPath)
	if err != nil {
		return err.Error(), 0
	}
	defer src.Close()
	fi, _ := src.Stat()
	if commit == 0 || len(m) == 0 {
		commit = uint32(fi.Size() / int64(ps))
	}
	rf, err := os.Open(restored)
	if err != nil {
		return err.Error(), commit
	}
	defer rf.Close()
	rfi, _ := rf.Stat()
	if rfi.Size() != int64(commit)*int64(ps) {
		return fmt.Sprintf("restored size %d != %d pages x %d", rfi.Size(), commit, ps), commit
	}
	a := make([]byte, ps)
	b := make([]byte, ps)
	zero := make([]byte, ps)
	for pg := uint32(1); pg <= commit; pg++ {
		off := int64(pg-1) * int64(ps)
		if _, err := rf.ReadAt(b, off); err != nil {
			return fmt.Sprintf("read restored page %d: %v", pg, err), commit
		}
		if pg == lockPgno {
			if !bytes.Equal(b, zero) {
				return fmt.Sprintf("lock page %d is not empty in the restored database", pg), commit
			}
			continue
		}
		if woff, ok := m[pg]; ok {
			copy(a, wal[woff+24:woff+24+int64(ps)])
		} else if n, _ := src.ReadAt(a, off); n < ps {
			for i := n; i < ps; i++ {
				a[i] = 0
			}
		}
		if !bytes.Equal(a, b) {
			return fmt.Sprintf("page %d differs", pg), commit
		}
	}
	return "", commit
}

func init() {
	register(&Prop{ID: "C17", Engine: "HIST", Gen: genC17, Run: runC17, Nontrivial: func(r *Result) bool {
		return r.Probes["pages_compared"] > 0 && r.Probes["crossed_lock_page"] > 0
	}})
}
