package sim

import (
	"bufio"
	"context"
	"encoding/json"
	"fmt"
	"io"
	"log/slog"
	"os"
	"os/exec"
	"path/filepath"
	"strings"
	"syscall"
	"testing"
	"testing/synctest"
	"time"

	"github.com/benbjohnson/litestream"
	"github.com/benbjohnson/litestream/verifhook"
)

// NODE engine. The litestream under test runs in a child process (this same test
// binary, TestNode). It executes one op per request line on stdin and answers
// with one JSON line on stdout. The guarded FS hook counts litestream's own
// file-system mutations; when the armed index is reached the child sends itself
// SIGKILL *before* performing the mutation: no defer runs, the kernel drops its
// locks, the WAL/SHM stay as they were. The parent owns the application, the
// ledger and the oracles.

type NodeInit struct {
	Dir       string `json:"dir"`
	Cfg       Config `json:"cfg"`
	KillAt    int    `json:"kill_at"`    // kill before FS op #k (1-based, counted per incarnation); 0 = never
	ClockMs   int64  `json:"clock_ms"`   // simulated time already elapsed (fast-forward of the fake clock)
	Mode      string `json:"mode"`       // "replicate" | "follow"
	FollowOut string `json:"follow_out"` // follower output path
	FollowMs  int64  `json:"follow_ms"`
}

type NodeReq struct {
	Op Op `json:"op"`
}

type NodeResp struct {
	Res     string   `json:"res"`
	Ack     bool     `json:"ack"`
	FSCount int      `json:"fs_count"`
	Pos     uint64   `json:"pos"`
	FSOps   []string `json:"fs_ops,omitempty"`
	Started bool     `json:"started"`
}

// nodeEntry is the child entry point (called from TestNode).
func nodeEntry(t *testing.T) {
	ip := os.Getenv("VERIF_NODE")
	if ip == "" {
		t.Skip("not a node")
	}
	var init NodeInit
	if err := json.Unmarshal([]byte(ip), &init); err != nil {
		t.Fatal(err)
	}
	slog.SetDefault(slog.New(newProbeHandler()))
	bubble(t, func() { nodeMain(&init) })
}

func nodeMain(init *NodeInit) {
	if init.ClockMs > 0 {
		time.Sleep(time.Duration(init.ClockMs) * time.Millisecond)
	}
	fsCount := 0
	var fsOps []string
	verifhook.FSHook = func(op, p1, p2 string) {
		fsCount++
		if init.KillAt > 0 && fsCount == init.KillAt {
			// announce on stderr (best effort) and die before the mutation
			fmt.Fprintf(os.Stderr, "KILL before fs op %d: %s %s %s\n", fsCount, op, p1, p2)
			syscall.Kill(os.Getpid(), syscall.SIGKILL)
			select {}
		}
		if len(fsOps) < 64 {
			fsOps = append(fsOps, op+" "+filepath.Base(p1))
		}
	}
	prog := &Program{Cfg: init.Cfg}
	res := &Result{Probes: map[string]int{}, FaultsHit: map[string]int{}}
	e := &Env{Prog: prog, Dir: init.Dir, DBPath: filepath.Join(init.Dir, "db"), RepDir: filepath.Join(init.Dir, "replica"),
		Scratch: filepath.Join(init.Dir, "scratch-node"), Res: res, siteCount: map[string]int{}, SitesSeen: map[string]int{}}
	os.MkdirAll(e.Scratch, 0o755)
	e.Probe = newProbeHandler()
	e.FS = NewFaultStore(nil, nil)
	out := bufio.NewWriter(os.Stdout)
	reply := func(r NodeResp) {
		r.FSCount = fsCount
		r.FSOps = fsOps
		fsOps = nil
		if e.LS != nil {
			if p, err := e.LS.DB.Pos(); err == nil {
				r.Pos = uint64(p.TXID)
			}
		}
		b, _ := json.Marshal(r)
		out.Write(b)
		out.WriteByte('\n')
		out.Flush()
	}
	if init.Mode == "follow" {
		nodeFollow(init, e, reply)
		return
	}
	if err := e.startLS(); err != nil {
		reply(NodeResp{Res: "start:" + errStr(err)})
		return
	}
	reply(NodeResp{Res: "started", Started: true})
	in := bufio.NewReaderSize(os.Stdin, 1<<20)
	for {
		line, err := in.ReadBytes('\n')
		if len(line) == 0 && err != nil {
			break
		}
		var req NodeReq
		if json.Unmarshal(line, &req) != nil {
			break
		}
		if req.Op.Kind == "quit" {
			break
		}
		if req.Op.Kind == "advance" {
			time.Sleep(time.Duration(req.Op.Ms) * time.Millisecond)
			reply(NodeResp{Res: "ok"})
			continue
		}
		r, ack := e.execOp(&req.Op)
		reply(NodeResp{Res: r, Ack: ack})
	}
	if e.LS != nil {
		e.stopLS(context.Background())
	}
}

// nodeFollow runs a follow-mode restore; each request advances the fake clock
// (ticks of the follower's poll loop); "quit" cancels the follower.
func nodeFollow(init *NodeInit, e *Env, reply func(NodeResp)) {
	ctx, cancel := context.WithCancel(context.Background())
	done := make(chan error, 1)
	go func() {
		client := e.fileClient()
		r := litestream.NewReplicaWithClient(nil, client)
		opt := litestream.NewRestoreOptions()
		opt.OutputPath = init.FollowOut
		opt.Follow = true
		opt.FollowInterval = time.Duration(init.FollowMs) * time.Millisecond
		done <- r.Restore(ctx, opt)
	}()
	reply(NodeResp{Res: "started", Started: true})
	in := bufio.NewReaderSize(os.Stdin, 1<<20)
	for {
		line, err := in.ReadBytes('\n')
		if len(line) == 0 && err != nil {
			break
		}
		var req NodeReq
		if json.Unmarshal(line, &req) != nil || req.Op.Kind == "quit" {
			break
		}
		if req.Op.Kind == "advance" {
			time.Sleep(time.Duration(req.Op.Ms) * time.Millisecond)
			synctest.Wait() // the follower goroutine is quiescent (blocked on its ticker) again
			select {
			case err := <-done:
				reply(NodeResp{Res: "follow-ended:" + errStr(err)})
				cancel()
				return
			default:
			}
			reply(NodeResp{Res: "ok"})
		}
	}
	cancel()
	select {
	case <-done:
	case <-time.After(time.Minute):
	}
}

var ctxBG = context.Background()

// ---- parent side ---------------------------------------------------------------

type NodeProc struct {
	cmd    *exec.Cmd
	stdin  io.WriteCloser
	stdout *bufio.Reader
	stderr *strings.Builder
	Dead   bool
	Killed bool
	FS     int
	LastFS []string
}

func StartNode(init *NodeInit) (*NodeProc, *NodeResp, error) {
	exe, err := os.Executable()
	if err != nil {
		return nil, nil, err
	}
	b, _ := json.Marshal(init)
	cmd := exec.Command(exe, "-test.run", "^TestNode$", "-test.timeout", "0")
	cmd.Env = append(os.Environ(), "VERIF_NODE="+string(b), "VERIF_JOB=", "GOMAXPROCS=1")
	stdin, _ := cmd.StdinPipe()
	stdout, _ := cmd.StdoutPipe()
	sb := &strings.Builder{}
	cmd.Stderr = sb
	if err := cmd.Start(); err != nil {
		return nil, nil, err
	}
	n := &NodeProc{cmd: cmd, stdin: stdin, stdout: bufio.NewReaderSize(stdout, 1<<20), stderr: sb}
	resp, err := n.read()
	if err != nil {
		n.Wait()
		return n, nil, fmt.Errorf("node did not start: %v; stderr: %s", err, sb.String())
	}
	return n, resp, nil
}

func (n *NodeProc) read() (*NodeResp, error) {
	for {
		line, err := n.stdout.ReadBytes('\n')
		if len(line) > 0 && line[0] == '{' {
			var r NodeResp
			if json.Unmarshal(line, &r) == nil {
				n.FS = r.FSCount
				n.LastFS = r.FSOps
				return &r, nil
			}
		}
		if err != nil {
			n.Dead = true
			return nil, err
		}
	}
}

// Do sends one op and waits for the reply; a nil reply means the node died.
func (n *NodeProc) Do(op Op) *NodeResp {
	if n.Dead {
		return nil
	}
	b, _ := json.Marshal(NodeReq{Op: op})
	if _, err := n.stdin.Write(append(b, '\n')); err != nil {
		n.Dead = true
		n.Wait()
		return nil
	}
	r, err := n.read()
	if err != nil {
		n.Wait()
		return nil
	}
	return r
}

func (n *NodeProc) Wait() {
	if n.cmd == nil {
		return
	}
	n.stdin.Close()
	err := n.cmd.Wait()
	n.Dead = true
	if err != nil && strings.Contains(n.stderr.String(), "KILL before fs op") {
		n.Killed = true
	}
	n.cmd = nil
}

func (n *NodeProc) Quit() {
	if n.Dead {
		n.Wait()
		return
	}
	n.Do(Op{Kind: "quit"})
	n.Wait()
}

func (n *NodeProc) Stderr() string { return n.stderr.String() }
