package sim

import (
	"encoding/json"
	"fmt"
	"hash/fnv"
	"math/rand/v2"
	"os"
)

// Rng is the single source of randomness of a run. Everything that is random in
// a run (program generation) is drawn from one Rng seeded from the run seed.
type Rng struct{ *rand.Rand }

func NewRng(seed uint64) *Rng {
	return &Rng{rand.New(rand.NewPCG(seed, 0x9E3779B97F4A7C15))}
}

func (r *Rng) Intn(n int) int {
	if n <= 0 {
		return 0
	}
	return r.IntN(n)
}
func (r *Rng) Range(lo, hi int) int  { return lo + r.Intn(hi-lo+1) } // inclusive
func (r *Rng) Chance(p float64) bool { return r.Float64() < p }
func (r *Rng) Pick(w []int) int { // weighted index
	t := 0
	for _, x := range w {
		t += x
	}
	if t == 0 {
		return 0
	}
	k := r.Intn(t)
	for i, x := range w {
		if k < x {
			return i
		}
		k -= x
	}
	return len(w) - 1
}
func PickOf[T any](r *Rng, a []T) T { return a[r.Intn(len(a))] }

// RunSeed derives the seed of run i of a property from the master seed.
func RunSeed(master uint64, prop string, i int) uint64 {
	h := fnv.New64a()
	fmt.Fprintf(h, "%d|%s|%d", master, prop, i)
	return h.Sum64()
}

// Config is the per-run configuration (swarm knobs).
type Config struct {
	PageSize      int `json:"page_size"`
	AutoVacuum    int `json:"auto_vacuum"`               // 0 none, 1 full, 2 incremental
	AppAutoCkpt   int `json:"app_autockpt"`              // application's wal_autocheckpoint
	AppCachePages int `json:"app_cache_pages,omitempty"` // application page cache (small: transactions spill uncommitted frames into the WAL)
	Tables        int `json:"tables"`                    // initial tables
	InitRows      int `json:"init_rows"`                 // rows inserted before litestream starts
	InitRowSize   int `json:"init_row_size"`             //

	MinCheckpointPageN int   `json:"min_ckpt"`
	TruncatePageN      int   `json:"truncate_n"`
	CheckpointMs       int64 `json:"ckpt_interval_ms"`
	MaxSyncWALBytes    int64 `json:"max_sync_wal_bytes"`
	MaxSyncLTXFiles    int   `json:"max_sync_ltx_files"`

	LevelMs             []int64 `json:"level_ms"` // interval of level 1..n (level 0 implicit)
	SnapshotIntervalMs  int64   `json:"snapshot_interval_ms"`
	SnapshotRetentionMs int64   `json:"snapshot_retention_ms"`
	L0RetentionMs       int64   `json:"l0_retention_ms"`
	// InitRollbackJournal: the database is created and left in rollback-journal
	// mode; litestream finds it that way at its first sync (and switches it to WAL)
	InitRollbackJournal bool `json:"init_rollback_journal,omitempty"`
	RetentionEnabled    bool `json:"retention_enabled"`
	VerifyCompaction    bool `json:"verify_compaction,omitempty"`

	Backend   string           `json:"backend"`         // "file" | "mem"
	StepGapMs int64            `json:"step_gap_ms"`     // fake-clock advance after every op
	Extra     map[string]int64 `json:"extra,omitempty"` // property-specific knobs
}

// Stmt is one SQL statement of an application transaction, fully explicit.
type Stmt struct {
	K    string `json:"k"`              // ins | upd | del | ctab | dtab | cidx | didx
	T    int    `json:"t"`              // table number
	Key  int    `json:"key,omitempty"`  // first id
	N    int    `json:"n,omitempty"`    // number of ids
	Sz   int    `json:"sz,omitempty"`   // payload size
	Seed uint64 `json:"seed,omitempty"` // payload seed
}

// Step is an application step (also used for interposed steps).
type Step struct {
	K        string `json:"k"` // txn | vacuum | incr_vacuum | ckpt | conn_cycle | reader_begin | reader_end | hold_begin | hold_commit | hold_rollback
	Stmts    []Stmt `json:"stmts,omitempty"`
	Rollback bool   `json:"rollback,omitempty"`
	Mode     string `json:"mode,omitempty"`
	N        int    `json:"n,omitempty"`
}

// Interpose runs application steps inside a litestream operation, at the nth
// time the named yield site is reached during that operation.
type Interpose struct {
	Site  string `json:"site"`
	Nth   int    `json:"nth"`
	Steps []Step `json:"steps"`
}

// Fault assigns an outcome to the nth replica-client call (counted from the
// start of the run, across all kinds).
type Fault struct {
	Call int    `json:"call"` // global client call index (0-based)
	Kind string `json:"kind"` // fail_before | fail_after | short_upload | short_read | mid_error | iter_error
	Arg  int64  `json:"arg,omitempty"`
	// On/N: a storm restricted to one call kind (list|open|write|delete): armed at
	// call index Call, it hits the next N calls of that kind and no other call.
	On string `json:"on,omitempty"`
	N  int    `json:"n,omitempty"`
}

// Op is one operation of a program. Ops are total: an op whose precondition
// does not hold is a recorded no-op, so any subsequence of a program is a program.
type Op struct {
	Kind string `json:"kind"`
	// app: step
	Step *Step `json:"step,omitempty"`
	// litestream: ls_sync | ls_replica_sync | ls_sync_wait | ls_http_sync | ls_ckpt | ls_snapshot |
	//   ls_compact | ls_snap_retention | ls_l0_retention | ls_txid_retention | ls_close | ls_reopen |
	//   ls_stop_start | ls_new_instance | ls_reset | ...
	Mode  string `json:"mode,omitempty"`
	Level int    `json:"level,omitempty"`
	Ms    int64  `json:"ms,omitempty"`
	N     int64  `json:"n,omitempty"`
	Flag  bool   `json:"flag,omitempty"`
	Steps []Step `json:"steps,omitempty"` // app steps performed while litestream is down (C04)

	Interpose []Interpose `json:"interpose,omitempty"`
}

// Program is a complete, replayable run description.
type Program struct {
	Property string  `json:"property"`
	Engine   string  `json:"engine"`
	Seed     uint64  `json:"seed"`
	Variant  string  `json:"variant,omitempty"`
	Cfg      Config  `json:"config"`
	Ops      []Op    `json:"ops"`
	Faults   []Fault `json:"faults,omitempty"`
	// free-form per-property parameters (e.g. kill index)
	Params map[string]int64 `json:"params,omitempty"`
	// Schedule is the scheduler's choice stream (CONC engines): at each decision
	// point the next value selects among the enabled actions (mod their number).
	Schedule []int `json:"schedule,omitempty"`
	// Holds are long delays (CONC engines): the Nth time the task parks at a site
	// with the given prefix it is not run again for the next Len decisions (a slow
	// remote call, a goroutine that is not scheduled for a long time) unless
	// nothing else can run.
	Holds []Hold `json:"holds,omitempty"`
}

type Hold struct {
	Task int    `json:"task"`
	Site string `json:"site"`
	Nth  int    `json:"nth"`
	Len  int    `json:"len"`
}

func (p *Program) Clone() *Program {
	b, _ := json.Marshal(p)
	var q Program
	_ = json.Unmarshal(b, &q)
	return &q
}

// Violation is a property violation found by an oracle.
type Violation struct {
	Property string         `json:"property"`
	Class    string         `json:"class"` // oracle id; the shrink criterion
	Msg      string         `json:"msg"`   // human readable
	OpIndex  int            `json:"op_index"`
	Facts    map[string]any `json:"facts,omitempty"` // decisive run facts (used for known-finding signatures)
}

func (v *Violation) String() string {
	return fmt.Sprintf("%s/%s at op %d: %s", v.Property, v.Class, v.OpIndex, v.Msg)
}

// Result is what one run reports.
type Result struct {
	Seed       uint64         `json:"seed"`
	Index      int            `json:"index"`
	Violation  *Violation     `json:"violation,omitempty"`
	Trouble    string         `json:"trouble,omitempty"` // harness trouble (exit 2), never a violation
	Ops        int            `json:"ops"`
	Acks       int            `json:"acks"`
	Checks     int            `json:"checks"` // oracle evaluations
	SimMs      int64          `json:"sim_ms"`
	Probes     map[string]int `json:"probes,omitempty"`
	FaultsHit  map[string]int `json:"faults_hit,omitempty"`
	Signature  string         `json:"signature"`
	Nontrivial bool           `json:"nontrivial"`
	Events     []string       `json:"events,omitempty"` // logical event log (for determinism diff / replay)
	WallMs     int64          `json:"wall_ms"`
}

// ReplayFile is what is written under /verif/replays.
type ReplayFile struct {
	Property  string     `json:"property"`
	Class     string     `json:"class"`
	Msg       string     `json:"msg"`
	Seed      uint64     `json:"seed"`
	Minimised bool       `json:"minimised"`
	Program   *Program   `json:"program"`
	Original  *Program   `json:"original_program,omitempty"`
	Events    []string   `json:"events"`
	Violation *Violation `json:"violation"`
}

func WriteJSON(path string, v any) error {
	b, err := json.MarshalIndent(v, "", " ")
	if err != nil {
		return err
	}
	return os.WriteFile(path, b, 0o644)
}
