package sim

import (
	"bytes"
	"context"
	"errors"
	"fmt"
	"io"
	"log/slog"
	"sort"
	"sync"
	"time"

	"github.com/benbjohnson/litestream"
	"github.com/superfly/ltx"
)

var ErrInjected = errors.New("injected storage fault")

type FileKey struct {
	Level    int
	Min, Max ltx.TXID
}

func (k FileKey) String() string { return fmt.Sprintf("L%d:%d-%d", k.Level, k.Min, k.Max) }

// ArchEntry is one version of an object ever stored on the replica.
type ArchEntry struct {
	Key     FileKey
	Data    []byte
	Event   int // client call index at which it was stored
	Created time.Time
	DBImage *State // snapshot level only: the main database file when the upload began
}

// FaultStore wraps a ReplicaClient: counts calls, injects the faults the
// program assigned to call indices, archives every stored object and calls
// AfterCall after each call (oracle hook).
type FaultStore struct {
	Inner  litestream.ReplicaClient
	Outage bool // uploads and deletes fail (ops store_down / store_up)
	// SnapshotSource, if set, returns the source database file's pages when a
	// snapshot-level upload begins (facts about what the snapshot could read).
	SnapshotSource func() *State
	Faults         map[int]Fault
	Calls          int
	Hit            map[string]int // fault kind -> times fired
	Kinds          map[string]int // call kind -> count
	Arch           map[FileKey][]*ArchEntry
	ArchSeq        []*ArchEntry
	Deleted        []FileKey
	AfterCall      func(kind string, idx int, err error)
	BeforeCall     func(kind string, idx int)
	Disabled       bool // when true, faults are ignored (fault-free suffix) but calls still counted
	CallLog        []string
	storms         []*Fault // kind-restricted storms (remaining count in N)
	Locked         bool     // CONC engine: bookkeeping is shared by task goroutines
	mu             sync.Mutex
}

func NewFaultStore(inner litestream.ReplicaClient, faults []Fault) *FaultStore {
	fs := &FaultStore{Inner: inner, Faults: map[int]Fault{}, Hit: map[string]int{}, Kinds: map[string]int{}, Arch: map[FileKey][]*ArchEntry{}}
	for _, f := range faults {
		if f.On != "" {
			ff := f
			fs.storms = append(fs.storms, &ff)
			continue
		}
		fs.Faults[f.Call] = f
	}
	return fs
}

// AddStorm registers a kind-restricted storm at run time (op arm_storm).
func (s *FaultStore) AddStorm(f Fault) {
	ff := f
	s.storms = append(s.storms, &ff)
}

func (s *FaultStore) begin(kind string) (int, *Fault) {
	if s.Locked {
		s.mu.Lock()
		defer s.mu.Unlock()
	}
	idx := s.Calls
	s.Calls++
	s.Kinds[kind]++
	if s.BeforeCall != nil {
		s.BeforeCall(kind, idx)
	}
	if s.Disabled {
		return idx, nil
	}
	if s.Outage && (kind == "write" || kind == "delete") {
		// storage outage switched on by the program (op store_down): every
		// mutating call fails before taking effect until store_up
		s.Hit["outage_"+kind]++
		return idx, &Fault{Call: idx, Kind: "fail_before"}
	}
	for _, st := range s.storms {
		if st.N > 0 && idx >= st.Call && st.On == kind {
			st.N--
			f := *st
			return idx, &f
		}
	}
	if f, ok := s.Faults[idx]; ok {
		// fault kinds are assigned without knowing the call kind; map to the
		// closest kind that applies to this call
		switch kind {
		case "list":
			if f.Kind == "short_read" || f.Kind == "short_upload" || f.Kind == "mid_error" {
				f.Kind = "iter_error"
			}
		case "open":
			if f.Kind == "short_upload" {
				f.Kind = "short_read"
			} else if f.Kind == "iter_error" {
				f.Kind = "fail_before"
			}
		case "write":
			if f.Kind == "short_read" || f.Kind == "mid_error" || f.Kind == "iter_error" {
				f.Kind = "short_upload"
			}
		case "delete", "deleteall":
			if f.Kind != "fail_after" {
				f.Kind = "fail_before"
			}
		}
		return idx, &f
	}
	return idx, nil
}

func (s *FaultStore) end(kind string, idx int, err error) {
	if s.Locked {
		s.mu.Lock()
		defer s.mu.Unlock()
	}
	if len(s.CallLog) < 4000 {
		e := "ok"
		if err != nil {
			e = "err"
		}
		s.CallLog = append(s.CallLog, fmt.Sprintf("%d:%s:%s", idx, kind, e))
	}
	if s.AfterCall != nil {
		s.AfterCall(kind, idx, err)
	}
}

func (s *FaultStore) fire(kind string) {
	if s.Locked {
		s.mu.Lock()
		defer s.mu.Unlock()
	}
	s.Hit[kind]++
}

func (s *FaultStore) Type() string                   { return s.Inner.Type() }
func (s *FaultStore) Init(ctx context.Context) error { return s.Inner.Init(ctx) }
func (s *FaultStore) SetLogger(l *slog.Logger)       { s.Inner.SetLogger(l) }

type errIter struct {
	items []*ltx.FileInfo
	i     int
	limit int
	err   error
}

func (it *errIter) Next() bool {
	if it.i >= it.limit || it.i >= len(it.items) {
		return false
	}
	it.i++
	return true
}
func (it *errIter) Item() *ltx.FileInfo {
	if it.i == 0 || it.i > len(it.items) {
		return nil
	}
	return it.items[it.i-1]
}
func (it *errIter) Err() error {
	if it.i >= it.limit {
		return it.err
	}
	return nil
}
func (it *errIter) Close() error { return it.Err() }

func (s *FaultStore) LTXFiles(ctx context.Context, level int, seek ltx.TXID, useMetadata bool) (ltx.FileIterator, error) {
	idx, f := s.begin("list")
	if f != nil && (f.Kind == "fail_before" || f.Kind == "fail_after") {
		s.fire("list_error")
		err := fmt.Errorf("list: %w", ErrInjected)
		s.end("list", idx, err)
		return nil, err
	}
	itr, err := s.Inner.LTXFiles(ctx, level, seek, useMetadata)
	if err == nil && f != nil && f.Kind == "iter_error" {
		items, _ := ltx.SliceFileIterator(itr)
		s.fire("iter_error")
		s.end("list", idx, nil)
		return &errIter{items: items, limit: int(f.Arg), err: fmt.Errorf("iterate: %w", ErrInjected)}, nil
	}
	s.end("list", idx, err)
	return itr, err
}

type faultReader struct {
	rc    io.ReadCloser
	left  int64
	atEnd error
	fired *bool
	// closeErr: every byte is delivered, Close reports an error (a connection
	// reset after the last byte)
	closeErr error
}

func (r *faultReader) Read(p []byte) (int, error) {
	if r.left <= 0 {
		*r.fired = true
		return 0, r.atEnd
	}
	if int64(len(p)) > r.left {
		p = p[:r.left]
	}
	n, err := r.rc.Read(p)
	r.left -= int64(n)
	return n, err
}
func (r *faultReader) Close() error {
	err := r.rc.Close()
	if r.closeErr != nil {
		*r.fired = true
		return r.closeErr
	}
	return err
}

func (s *FaultStore) OpenLTXFile(ctx context.Context, level int, minTXID, maxTXID ltx.TXID, offset, size int64) (io.ReadCloser, error) {
	idx, f := s.begin("open")
	if f != nil && (f.Kind == "fail_before" || f.Kind == "fail_after") {
		s.fire("open_error")
		err := fmt.Errorf("open: %w", ErrInjected)
		s.end("open", idx, err)
		return nil, err
	}
	rc, err := s.Inner.OpenLTXFile(ctx, level, minTXID, maxTXID, offset, size)
	if err == nil && f != nil && f.Kind == "close_error" {
		s.fire("close_error")
		s.end("open", idx, nil)
		return &faultReader{rc: rc, left: 1 << 62, atEnd: io.EOF, fired: new(bool), closeErr: fmt.Errorf("close: %w", ErrInjected)}, nil
	}
	if err == nil && f != nil && (f.Kind == "short_read" || f.Kind == "mid_error") {
		fired := new(bool)
		fr := &faultReader{rc: rc, left: f.Arg, atEnd: io.EOF, fired: fired}
		if f.Kind == "mid_error" {
			fr.atEnd = fmt.Errorf("read: %w", ErrInjected)
		}
		s.fire(f.Kind)
		s.end("open", idx, nil)
		return fr, nil
	}
	s.end("open", idx, err)
	return rc, err
}

func (s *FaultStore) archive(level int, minTXID, maxTXID ltx.TXID, data []byte, idx int, created time.Time) {
	s.archiveWithImage(level, minTXID, maxTXID, data, idx, created, nil)
}

func (s *FaultStore) archiveWithImage(level int, minTXID, maxTXID ltx.TXID, data []byte, idx int, created time.Time, img *State) {
	if s.Locked {
		s.mu.Lock()
		defer s.mu.Unlock()
	}
	k := FileKey{level, minTXID, maxTXID}
	e := &ArchEntry{Key: k, Data: data, Event: idx, Created: created, DBImage: img}
	s.Arch[k] = append(s.Arch[k], e)
	s.ArchSeq = append(s.ArchSeq, e)
}

func (s *FaultStore) WriteLTXFile(ctx context.Context, level int, minTXID, maxTXID ltx.TXID, r io.Reader) (*ltx.FileInfo, error) {
	idx, f := s.begin("write")
	if f != nil && f.Kind == "fail_before" {
		s.fire("write_fail_before")
		err := fmt.Errorf("write: %w", ErrInjected)
		s.end("write", idx, err)
		return nil, err
	}
	if f != nil && f.Kind == "short_upload" {
		_, _ = io.CopyN(io.Discard, r, f.Arg)
		s.fire("short_upload")
		err := fmt.Errorf("write interrupted: %w", ErrInjected)
		s.end("write", idx, err)
		return nil, err
	}
	var dbImage *State
	if level == litestream.SnapshotLevel && s.SnapshotSource != nil {
		dbImage = s.SnapshotSource()
	}
	var buf bytes.Buffer
	info, err := s.Inner.WriteLTXFile(ctx, level, minTXID, maxTXID, io.TeeReader(r, &buf))
	if err == nil {
		s.archiveWithImage(level, minTXID, maxTXID, buf.Bytes(), idx, info.CreatedAt, dbImage)
		if f != nil && f.Kind == "fail_after" {
			s.fire("write_fail_after")
			err = fmt.Errorf("write (after effect): %w", ErrInjected)
			info = nil
		}
	}
	s.end("write", idx, err)
	return info, err
}

func (s *FaultStore) DeleteLTXFiles(ctx context.Context, a []*ltx.FileInfo) error {
	idx, f := s.begin("delete")
	if f != nil && f.Kind == "fail_before" {
		s.fire("delete_fail_before")
		err := fmt.Errorf("delete: %w", ErrInjected)
		s.end("delete", idx, err)
		return err
	}
	err := s.Inner.DeleteLTXFiles(ctx, a)
	if err == nil {
		if s.Locked {
			s.mu.Lock()
		}
		for _, info := range a {
			s.Deleted = append(s.Deleted, FileKey{info.Level, info.MinTXID, info.MaxTXID})
		}
		if s.Locked {
			s.mu.Unlock()
		}
		if f != nil && f.Kind == "fail_after" {
			s.fire("delete_fail_after")
			err = fmt.Errorf("delete (after effect): %w", ErrInjected)
		}
	}
	s.end("delete", idx, err)
	return err
}

func (s *FaultStore) DeleteAll(ctx context.Context) error {
	idx, _ := s.begin("deleteall")
	err := s.Inner.DeleteAll(ctx)
	s.end("deleteall", idx, err)
	return err
}

// Listing returns the current files of a level straight from the backend,
// bypassing fault injection and call counting.
func (s *FaultStore) Listing(level int) []*ltx.FileInfo {
	itr, err := s.Inner.LTXFiles(context.Background(), level, 0, false)
	if err != nil {
		return nil
	}
	a, _ := ltx.SliceFileIterator(itr)
	return a
}

// AllListing returns every file on the replica (levels 0..9).
func (s *FaultStore) AllListing() []*ltx.FileInfo {
	var out []*ltx.FileInfo
	for lv := 0; lv <= litestream.SnapshotLevel; lv++ {
		out = append(out, s.Listing(lv)...)
	}
	return out
}

// ReadObject reads an object straight from the backend.
func (s *FaultStore) ReadObject(level int, minTXID, maxTXID ltx.TXID) ([]byte, error) {
	rc, err := s.Inner.OpenLTXFile(context.Background(), level, minTXID, maxTXID, 0, 0)
	if err != nil {
		return nil, err
	}
	defer rc.Close()
	return io.ReadAll(rc)
}

// ArchKeys returns archive keys of a level sorted by (min,max).
func (s *FaultStore) ArchKeys(level int) []FileKey {
	var ks []FileKey
	for k := range s.Arch {
		if k.Level == level {
			ks = append(ks, k)
		}
	}
	sort.Slice(ks, func(i, j int) bool {
		if ks[i].Min != ks[j].Min {
			return ks[i].Min < ks[j].Min
		}
		return ks[i].Max < ks[j].Max
	})
	return ks
}

// passthrough wrappers for the legacy (0.3.x) read interface.
type FaultStoreV3 struct {
	*FaultStore
	V3 litestream.ReplicaClientV3
}

func (s *FaultStoreV3) GenerationsV3(ctx context.Context) ([]string, error) {
	return s.V3.GenerationsV3(ctx)
}
func (s *FaultStoreV3) SnapshotsV3(ctx context.Context, g string) ([]litestream.SnapshotInfoV3, error) {
	return s.V3.SnapshotsV3(ctx, g)
}
func (s *FaultStoreV3) WALSegmentsV3(ctx context.Context, g string) ([]litestream.WALSegmentInfoV3, error) {
	return s.V3.WALSegmentsV3(ctx, g)
}
func (s *FaultStoreV3) OpenSnapshotV3(ctx context.Context, g string, i int) (io.ReadCloser, error) {
	return s.V3.OpenSnapshotV3(ctx, g, i)
}
func (s *FaultStoreV3) OpenWALSegmentV3(ctx context.Context, g string, i int, off int64) (io.ReadCloser, error) {
	return s.V3.OpenWALSegmentV3(ctx, g, i, off)
}
