package sim

import "time"

// Minimise shrinks a failing program while the same violation class persists.
func Minimise(t testingT, prop *Prop, p *Program, class string, budget time.Duration) (*Program, *Result, int) {
	deadline := time.Now().Add(budget)
	runs := 0
	var lastRes *Result
	test := func(q *Program) bool {
		if time.Now().After(deadline) {
			return false
		}
		runs++
		r := prop.Run(t, q)
		if r.Violation != nil && r.Violation.Class == class && r.Trouble == "" {
			lastRes = r
			return true
		}
		return false
	}
	cur := p.Clone()

	// 1. ddmin over ops
	n := 2
	for len(cur.Ops) >= 2 && time.Now().Before(deadline) {
		chunk := (len(cur.Ops) + n - 1) / n
		reduced := false
		for start := 0; start < len(cur.Ops); start += chunk {
			end := start + chunk
			if end > len(cur.Ops) {
				end = len(cur.Ops)
			}
			q := cur.Clone()
			q.Ops = append(append([]Op{}, cur.Ops[:start]...), cur.Ops[end:]...)
			// fault call indices are global; keep them (they are explicit data)
			if len(q.Ops) > 0 && test(q) {
				cur = q
				n = max(n-1, 2)
				reduced = true
				break
			}
		}
		if !reduced {
			if chunk <= 1 {
				break
			}
			n = min(n*2, len(cur.Ops))
		}
	}
	// 2. faults
	for i := 0; i < len(cur.Faults) && time.Now().Before(deadline); {
		q := cur.Clone()
		q.Faults = append(append([]Fault{}, cur.Faults[:i]...), cur.Faults[i+1:]...)
		if test(q) {
			cur = q
		} else {
			i++
		}
	}
	// 3. interpositions and their steps
	for oi := 0; oi < len(cur.Ops) && time.Now().Before(deadline); oi++ {
		for ii := 0; ii < len(cur.Ops[oi].Interpose); {
			q := cur.Clone()
			ips := q.Ops[oi].Interpose
			q.Ops[oi].Interpose = append(append([]Interpose{}, ips[:ii]...), ips[ii+1:]...)
			if test(q) {
				cur = q
				continue
			}
			// shrink steps
			for si := 0; si < len(cur.Ops[oi].Interpose[ii].Steps) && len(cur.Ops[oi].Interpose[ii].Steps) > 1; {
				q := cur.Clone()
				st := q.Ops[oi].Interpose[ii].Steps
				q.Ops[oi].Interpose[ii].Steps = append(append([]Step{}, st[:si]...), st[si+1:]...)
				if test(q) {
					cur = q
				} else {
					si++
				}
			}
			ii++
		}
	}
	// 4. statements inside transactions; steps inside down-time blocks
	for oi := 0; oi < len(cur.Ops) && time.Now().Before(deadline); oi++ {
		if st := cur.Ops[oi].Step; st != nil {
			for si := 0; si < len(cur.Ops[oi].Step.Stmts) && len(cur.Ops[oi].Step.Stmts) > 1; {
				q := cur.Clone()
				ss := q.Ops[oi].Step.Stmts
				q.Ops[oi].Step.Stmts = append(append([]Stmt{}, ss[:si]...), ss[si+1:]...)
				if test(q) {
					cur = q
				} else {
					si++
				}
			}
		}
		for si := 0; si < len(cur.Ops[oi].Steps); {
			q := cur.Clone()
			ss := q.Ops[oi].Steps
			q.Ops[oi].Steps = append(append([]Step{}, ss[:si]...), ss[si+1:]...)
			if test(q) {
				cur = q
			} else {
				si++
			}
		}
	}
	// 5. configuration simplification
	tryCfg := func(mut func(c *Config)) {
		if !time.Now().Before(deadline) {
			return
		}
		q := cur.Clone()
		mut(&q.Cfg)
		if test(q) {
			cur = q
		}
	}
	tryCfg(func(c *Config) { c.InitRows = 0 })
	tryCfg(func(c *Config) { c.AutoVacuum = 0 })
	tryCfg(func(c *Config) { c.AppAutoCkpt = 0 })
	tryCfg(func(c *Config) { c.MaxSyncWALBytes = 0 })
	tryCfg(func(c *Config) { c.CheckpointMs = 0 })
	tryCfg(func(c *Config) { c.TruncatePageN = 0 })
	tryCfg(func(c *Config) { c.MinCheckpointPageN = 1000 })
	tryCfg(func(c *Config) { c.Tables = 1 })
	if lastRes == nil {
		lastRes = prop.Run(t, cur)
		runs++
	}
	return cur, lastRes, runs
}
