package sim

import (
	"context"
	"crypto/sha256"
	"fmt"
	"os"
	"path/filepath"
	"strings"
	"syscall"
	"testing/synctest"
	"time"

	"github.com/benbjohnson/litestream"
	"github.com/benbjohnson/litestream/file"
	"github.com/benbjohnson/litestream/verifhook"
	"github.com/superfly/ltx"
)

// C11 — files are flushed before they are published, and published before acknowledged.
//
// HIST engine with the FS hook recording the exact ordered trace of litestream's
// own file-system mutations (create / bulk write / fsync / rename / fsync-dir /
// unlink / truncate / page write) with content fingerprints; the ordering rules
// are decided on the trace.

type fsEvent struct {
	Seq    int
	Op     string
	P1, P2 string
	OpIdx  int
	Fp     string // fingerprint of P1's content at this instant (fsync, rename)
	Gor    bool   // issued by a goroutine other than the main one (follower)
}

func fingerprint(path string) string {
	b, err := os.ReadFile(path)
	if err != nil {
		return "absent"
	}
	h := sha256.Sum256(b)
	return fmt.Sprintf("%d:%x", len(b), h[:8])
}

func genC11(r *Rng, tier string, idx int) *Program {
	p := &Program{Property: "C11", Engine: "HIST"}
	p.Cfg = genConfig(r)
	p.Cfg.LevelMs = []int64{2000, 9000}[:r.Range(1, 2)]
	p.Cfg.L0RetentionMs = []int64{1, 2000, 300000}[r.Intn(3)]
	p.Cfg.SnapshotRetentionMs = []int64{5000, 100000}[r.Intn(2)]
	p.Cfg.RetentionEnabled = true
	p.Cfg.StepGapMs = 1000
	n := r.Range(8, 30)
	nRestore := 0
	if r.Chance(0.25) {
		genC11LaggingFollower(r, p)
		n = r.Range(0, 8)
	}
	for i := 0; i < n; i++ {
		switch r.Pick([]int{35, 18, 6, 8, 4, 4, 4, 3, 4, 5, 3, 3}) {
		case 0:
			p.Ops = append(p.Ops, appOp(genAppStep(r, &p.Cfg)))
		case 1:
			p.Ops = append(p.Ops, Op{Kind: "ls_sync_wait"})
		case 2:
			p.Ops = append(p.Ops, Op{Kind: "ls_ckpt", Mode: ckptModes[r.Pick([]int{5, 2, 2, 4})]})
		case 3:
			lv := r.Range(1, len(p.Cfg.LevelMs))
			if r.Chance(0.3) {
				lv = 9
			}
			p.Ops = append(p.Ops, Op{Kind: "ls_compact", Level: lv})
		case 4:
			p.Ops = append(p.Ops, Op{Kind: "ls_snapshot"})
		case 5:
			p.Ops = append(p.Ops, Op{Kind: "ls_snap_retention"})
		case 6:
			p.Ops = append(p.Ops, Op{Kind: "ls_l0_retention"})
		case 7:
			nRestore++
			p.Ops = append(p.Ops, Op{Kind: "ls_restore", N: int64(nRestore)})
		case 8:
			p.Ops = append(p.Ops, Op{Kind: "follow_ticks", N: int64(r.Range(1, 3))})
		case 9:
			// the database is put back to an earlier version while litestream is down:
			// the next start fetches a baseline file from the replica
			p.Ops = append(p.Ops, appOp(Step{K: "save_copy"}), appOp(genTxn(r, &p.Cfg)), Op{Kind: "ls_sync_wait"},
				Op{Kind: "ls_restart", Steps: []Step{{K: "replace_older", N: r.Intn(4)}, {K: "rm_meta"}}})
		case 10:
			p.Ops = append(p.Ops, Op{Kind: "ls_restart", Steps: genDownSteps(r, &p.Cfg, false)})
		default:
			p.Ops = append(p.Ops, Op{Kind: "sleep", Ms: []int64{2500, 10000}[r.Intn(2)]})
		}
	}
	p.Ops = append(p.Ops, Op{Kind: "ls_sync_wait"}, Op{Kind: "follow_ticks", N: 2})
	if r.Chance(0.35) {
		// the legacy (0.3.x) restore path publishes its output too: emulate a small
		// legacy layout (snapshot only, or snapshot + one WAL segment) and restore it
		p.Ops = append(p.Ops, Op{Kind: "v3_restore", N: int64(r.Intn(4))})
	}
	return p
}

// genC11LaggingFollower: a follower that was stopped early and comes back after
// the level-0 files it needs were removed, the older level-1 files went with an
// expired snapshot and only a level-2 file still reaches back to its position:
// the gap is bridged in more than one poll (each publishes the sidecar).
func genC11LaggingFollower(r *Rng, p *Program) {
	p.Variant = "lagging-follower"
	p.Cfg.LevelMs = []int64{2000, 9000}
	p.Cfg.SnapshotRetentionMs = 100000
	p.Cfg.L0RetentionMs = 1
	p.Cfg.RetentionEnabled = true
	txns := func(n int) {
		for i := 0; i < n; i++ {
			st := genTxn(r, &p.Cfg)
			st.Rollback = false
			p.Ops = append(p.Ops, appOp(st), Op{Kind: "ls_sync_wait"})
		}
	}
	add := func(ops ...Op) { p.Ops = append(p.Ops, ops...) }
	txns(r.Range(1, 2))
	add(Op{Kind: "ls_snapshot"}, Op{Kind: "follow_ticks", N: 2}, Op{Kind: "follow_stop"})
	txns(r.Range(1, 3))
	add(Op{Kind: "sleep", Ms: 2500}, Op{Kind: "ls_compact", Level: 1}) // L1 [1..a]
	txns(r.Range(1, 2))
	add(Op{Kind: "ls_snapshot"}) // s > a: the snapshot whose expiry sets the retention floor
	txns(r.Range(1, 2))
	add(Op{Kind: "sleep", Ms: 2500}, Op{Kind: "ls_compact", Level: 1}, Op{Kind: "sleep", Ms: 10000}, Op{Kind: "ls_compact", Level: 2}) // L1 [a+1..b], L2 [1..b]
	add(Op{Kind: "sleep", Ms: 100000})
	txns(r.Range(1, 3))
	add(Op{Kind: "sleep", Ms: 2500}, Op{Kind: "ls_compact", Level: 1}) // L1 [b+1..c]
	txns(r.Range(1, 2))
	add(Op{Kind: "ls_snapshot"})
	txns(r.Range(0, 2))
	add(Op{Kind: "ls_l0_retention"}, Op{Kind: "ls_snap_retention"}, Op{Kind: "follow_ticks", N: 1}, Op{Kind: "follow_ticks", N: 2})
}

type c11state struct {
	trace     []fsEvent
	followCtx context.CancelFunc
	followOn  bool
}

func runC11(t testingT, p *Program) *Result {
	st := &c11state{}
	return RunHIST(t, p, func(e *Env) {
		seq := 0
		mark := os.Getenv("VERIF_MARK") != ""
		verifhook.FSHook = func(op, p1, p2 string) {
			seq++
			if mark {
				// syscall cross-check (driver stage "strace"): make the announcement
				// visible in the system-call trace, right before the real operation
				_ = syscall.Access(fmt.Sprintf("/verif-mark|%d|%d|%s|%s|%s", p.Seed, seq, op, p1, p2), 0)
			}
			ev := fsEvent{Seq: seq, Op: op, P1: p1, P2: p2, OpIdx: e.curOp, Gor: goid() != e.mainGID}
			if op == "fsync" || op == "rename" {
				ev.Fp = fingerprint(p1)
			} else if op == "remove" {
				ev.Fp = "absent"
				if fileExists(p1) {
					ev.Fp = "exists"
				}
			}
			st.trace = append(st.trace, ev)
			e.Res.Probes["fs:"+op]++
		}
		extra := func(e *Env, op *Op) (string, bool) { return c11Follow(e, st, op) }
		c11FollowOp = extra
		last := 0
		e.AfterOp = func(e *Env, i int, op *Op, res string) *Violation {
			evs := st.trace[last:]
			last = len(st.trace)
			okRes := strings.HasPrefix(res, "ok") || strings.HasSuffix(res, "/started")
			return e.checkFSRules(st, evs, op, okRes)
		}
		e.Cleanup = append(e.Cleanup, func() {
			if st.followCtx != nil {
				st.followCtx()
				time.Sleep(10 * time.Second)
			}
		})
	})
}

var c11FollowOp func(e *Env, op *Op) (string, bool)

func init() {
	extraOps["v3_restore"] = func(e *Env, op *Op) (string, bool) {
		ctx := context.Background()
		e.stopLS(ctx)
		e.App.Do(&Step{K: "hold_rollback"})
		e.App.Do(&Step{K: "reader_end"})
		e.App.Do(&Step{K: "ckpt", Mode: "TRUNCATE"})
		e.observe("app")
		root := filepath.Join(e.Dir, "legacy-c11")
		os.RemoveAll(root)
		gen := "0123456789abcdef"
		img, err := os.ReadFile(e.DBPath)
		if err != nil {
			return errStr(err), false
		}
		t0 := time.Now().Add(-time.Hour)
		sp := litestream.SnapshotPathV3(root, gen, 0)
		os.MkdirAll(filepath.Dir(sp), 0o755)
		os.WriteFile(sp, lz4Bytes(img), 0o644)
		os.Chtimes(sp, t0, t0)
		if op.N%2 == 1 {
			e.appDo(&Step{K: "txn", Stmts: []Stmt{{K: "ctab", T: 0}, {K: "ins", T: 0, Key: 900, N: 3, Sz: 50, Seed: 77}}})
			e.observe("app")
			if wal, err := os.ReadFile(e.DBPath + "-wal"); err == nil && len(wal) > 32 {
				wp := litestream.WALSegmentPathV3(root, gen, 0, 0)
				os.MkdirAll(filepath.Dir(wp), 0o755)
				os.WriteFile(wp, lz4Bytes(wal), 0o644)
				t1 := t0.Add(time.Minute)
				os.Chtimes(wp, t1, t1)
				e.Res.Probes["v3_restore_with_wal"]++
			}
			e.App.Do(&Step{K: "ckpt", Mode: "TRUNCATE"})
			e.observe("app")
		}
		out := filepath.Join(e.Scratch, fmt.Sprintf("restore-v3-%d.db", e.curOp))
		for _, s := range []string{"", ".tmp", "-wal", "-shm", ".tmp-wal", ".tmp-shm"} {
			os.Remove(out + s)
		}
		rep := litestream.NewReplicaWithClient(nil, file.NewReplicaClient(root))
		opt := litestream.NewRestoreOptions()
		opt.OutputPath = out
		e.Res.Probes["v3_restores"]++
		return errStr(rep.Restore(ctx, opt)), false
	}
	extraOps["follow_stop"] = func(e *Env, op *Op) (string, bool) {
		if c11FollowOp == nil {
			return "noop:nofollow", false
		}
		return c11FollowOp(e, op)
	}
	extraOps["follow_ticks"] = func(e *Env, op *Op) (string, bool) {
		if c11FollowOp == nil {
			return "noop", false
		}
		return c11FollowOp(e, op)
	}
}

// c11Follow starts (once) a follow-mode restore in the bubble and lets it tick.
func c11Follow(e *Env, st *c11state, op *Op) (string, bool) {
	if op.Kind == "follow_stop" {
		// the follower process goes away; a later follow_ticks starts a new one
		// that resumes from the output file and its sidecar
		if !st.followOn {
			return "noop:off", false
		}
		st.followCtx()
		st.followOn = false
		time.Sleep(10 * time.Millisecond)
		synctest.Wait()
		e.Res.Probes["follow_stops"]++
		return "ok", false
	}
	if len(e.FS.Listing(0)) == 0 && len(e.FS.Listing(litestream.SnapshotLevel)) == 0 {
		return "noop:empty", false
	}
	if !st.followOn {
		ctx, cancel := context.WithCancel(context.Background())
		st.followCtx = cancel
		st.followOn = true
		out := filepath.Join(e.Dir, "follower.db")
		go func() {
			r := litestream.NewReplicaWithClient(nil, e.fileClient())
			opt := litestream.NewRestoreOptions()
			opt.OutputPath = out
			opt.Follow = true
			opt.FollowInterval = time.Second
			_ = r.Restore(ctx, opt)
		}()
	}
	time.Sleep(time.Duration(op.N)*time.Second + 10*time.Millisecond)
	e.Res.Probes["follow_ticks"] += int(op.N)
	return "ok", false
}

func isPublished(path string) string {
	switch {
	case strings.HasSuffix(path, ".ltx") && strings.Contains(path, "/replica/"):
		return "replica-ltx"
	case strings.HasSuffix(path, ".ltx") && strings.Contains(path, "-litestream/"):
		return "local-ltx"
	case strings.HasSuffix(path, "-txid"):
		return "sidecar"
	case strings.Contains(filepath.Base(path), "restore-") || strings.HasSuffix(path, "follower.db"):
		return "restore-output"
	}
	return ""
}

func parseLTXPath(path string) (level int, min, max ltx.TXID, ok bool) {
	base := filepath.Base(path)
	mn, mx, err := ltx.ParseFilename(base)
	if err != nil {
		return 0, 0, 0, false
	}
	var lv int
	if _, err := fmt.Sscanf(filepath.Base(filepath.Dir(path)), "%d", &lv); err != nil {
		return 0, 0, 0, false
	}
	return lv, mn, mx, true
}

// checkFSRules evaluates the ordering rules on the events of one op.
func (e *Env) checkFSRules(st *c11state, evs []fsEvent, op *Op, opOK bool) *Violation {
	all := st.trace
	for _, ev := range evs {
		switch ev.Op {
		case "rename":
			kind := isPublished(ev.P2)
			if kind == "" {
				continue
			}
			e.Res.Checks++
			e.Res.Probes["rule:R1:"+kind]++
			// R1: flushed after the last write and before the rename
			var lastSync *fsEvent
			for i := range all {
				x := &all[i]
				if x.Seq >= ev.Seq {
					break
				}
				if x.Op == "fsync" && x.P1 == ev.P1 {
					lastSync = x
				}
				if x.Op == "create" && x.P1 == ev.P1 {
					lastSync = nil // a new file under the same temporary name
				}
			}
			if lastSync == nil {
				v := e.fail("published-without-fsync", "%s %s was renamed into place (op %d %s) without an fsync of %s since it was created", kind, e.san(ev.P2), ev.OpIdx, op.Kind, filepath.Base(ev.P1))
				v.Facts["kind"] = kind
				return v
			}
			// (legacy restore: SQLite's own checkpoint finishes the temporary database
			// after the downloaded snapshot was flushed; its flushing is trusted base)
			if lastSync.Fp != ev.Fp && op.Kind != "v3_restore" {
				v := e.fail("written-after-fsync", "%s %s was renamed into place with content %s but its last fsync saw %s: written after the flush", kind, e.san(ev.P2), ev.Fp, lastSync.Fp)
				v.Facts["kind"] = kind
				return v
			}
			// R2: the directory is flushed after the rename and before success is reported
			if opOK || ev.Gor {
				dir := filepath.Dir(ev.P2)
				flushed := false
				for i := range all {
					x := &all[i]
					if x.Seq > ev.Seq && x.Op == "fsyncdir" && x.P1 == dir && (x.OpIdx == ev.OpIdx || ev.Gor) {
						flushed = true
						break
					}
				}
				e.Res.Probes["rule:R2:"+kind]++
				if !flushed {
					v := e.fail("dir-not-flushed", "%s %s was renamed into place in op %d (%s) and the operation reported success, but %s was never fsynced afterwards", kind, e.san(ev.P2), ev.OpIdx, op.Kind, e.san(dir))
					v.Facts["kind"] = kind
					v.Facts["baseline_fetch"] = kind == "local-ltx" && strings.Contains(op.Kind, "restart")
					return v
				}
			}
		case "remove":
			kind := isPublished(ev.P1)
			if kind != "replica-ltx" && kind != "local-ltx" {
				continue
			}
			lv, mn, mx, ok := parseLTXPath(ev.P1)
			if !ok {
				continue
			}
			if ev.Fp != "exists" {
				continue // already gone: a no-op unlink
			}
			e.Res.Checks++
			e.Res.Probes["rule:R3:"+kind]++
			// durable replica files at this instant (rename + later dir flush, not removed), excluding the victim
			durable := e.durableReplicaFiles(all, ev.Seq, ev.P1)
			if kind == "replica-ltx" {
				// the latest durable state must stay reachable without the victim
				ends := reachable(durable, func(pfile) bool { return true })
				var maxAll ltx.TXID
				for _, f := range append(durable, pfile{Level: lv, Min: mn, Max: mx}) {
					if f.Max > maxAll {
						maxAll = f.Max
					}
				}
				if !ends[maxAll] {
					v := e.fail("deleted-before-superseded", "replica file L%d[%d-%d] is unlinked in op %d (%s) but the durable files left do not form a chain to TXID %d (%s)", lv, mn, mx, ev.OpIdx, op.Kind, maxAll, listStr(durable))
					return v
				}
			} else {
				// a local file may go once the replica durably covers its TXIDs
				covered := false
				for _, f := range durable {
					if f.Min <= mn && f.Max >= mx {
						covered = true
					}
				}
				if !covered && lv == 0 {
					v := e.fail("local-deleted-before-uploaded", "local L%d[%d-%d] is unlinked in op %d (%s) but no durable replica file covers those TXIDs (%s)", lv, mn, mx, ev.OpIdx, op.Kind, listStr(durable))
					return v
				}
			}
		case "truncate", "writeat":
			// R4 (follow mode writes in place) is checked on the sidecar rename below
		}
	}
	// R4: a sidecar is published only after the follower database was flushed
	// after its last page write / truncate.
	for _, ev := range evs {
		if ev.Op != "rename" || isPublished(ev.P2) != "sidecar" {
			continue
		}
		dbPath := strings.TrimSuffix(ev.P2, "-txid")
		dirty := false
		for i := range all {
			x := &all[i]
			if x.Seq >= ev.Seq {
				break
			}
			if x.P1 != dbPath {
				continue
			}
			switch x.Op {
			case "writeat", "truncate":
				dirty = true
			case "fsync":
				dirty = false
			}
		}
		e.Res.Checks++
		e.Res.Probes["rule:R4:sidecar"]++
		if dirty {
			return e.fail("sidecar-before-db-flush", "TXID sidecar %s was published although the follower database has page writes/truncates that were not fsynced", e.san(ev.P2))
		}
	}
	return nil
}

// durableReplicaFiles: replica files whose rename was followed by a flush of
// their directory before seq, and that were not unlinked before seq.
func (e *Env) durableReplicaFiles(all []fsEvent, seq int, exclude string) []pfile {
	type st struct {
		renamed, flushed, removed bool
		dir                       string
	}
	m := map[string]*st{}
	var order []string
	for i := range all {
		x := &all[i]
		if x.Seq >= seq {
			break
		}
		switch x.Op {
		case "rename":
			if isPublished(x.P2) == "replica-ltx" {
				if m[x.P2] == nil {
					order = append(order, x.P2)
				}
				m[x.P2] = &st{renamed: true, dir: filepath.Dir(x.P2)}
			}
		case "fsyncdir":
			for _, s := range m {
				if s.renamed && s.dir == x.P1 {
					s.flushed = true
				}
			}
		case "remove":
			if s := m[x.P1]; s != nil {
				s.removed = true
			}
		}
	}
	var out []pfile
	for _, p := range order {
		s := m[p]
		if p == exclude || !s.flushed || s.removed {
			continue
		}
		if lv, mn, mx, ok := parseLTXPath(p); ok {
			out = append(out, pfile{Level: lv, Min: mn, Max: mx})
		}
	}
	return out
}

func init() {
	register(&Prop{ID: "C11", Engine: "HIST", Gen: genC11, Run: runC11, Nontrivial: func(r *Result) bool {
		return r.Probes["rule:R1:replica-ltx"] > 0 && r.Probes["rule:R1:local-ltx"] > 0
	}})
}
