package sim

import (
	"bytes"
	"context"
	"database/sql"
	"fmt"
	"io"
	"log/slog"
	"os"
	"path/filepath"
	"runtime"
	"runtime/debug"
	"strings"
	"testing/synctest"
	"time"

	"github.com/benbjohnson/litestream"
	"github.com/benbjohnson/litestream/file"
	"github.com/benbjohnson/litestream/verifhook"
	"github.com/superfly/ltx"
)

// C12 — concurrent daemon operations are race-free, deadlock-free and keep C01/C02.
//
// CONC engine: N task goroutines over one Store (monitors off: every tick is a
// task op) plus one application writer task, inside one bubble, serialised by the
// seeded scheduler at litestream's named yield sites. The binary is built with
// -race; the scheduler's hand-off is built not to order task segments (see
// sched.go), so the detector still sees segments of different tasks as concurrent.

func genC12(r *Rng, tier string, idx int) *Program {
	p := &Program{Property: "C12", Engine: "CONC"}
	p.Cfg = genConfig(r)
	if p.Cfg.PageSize > 8192 {
		p.Cfg.PageSize = 4096
	}
	p.Cfg.InitRows = []int{0, 5, 40}[r.Intn(3)]
	p.Cfg.LevelMs = []int64{2000, 9000}[:r.Range(1, 2)]
	p.Cfg.MaxSyncWALBytes = []int64{0, 1, 3000, 64 << 20}[r.Intn(4)]
	nt := r.Range(2, 5)
	p.Params = map[string]int64{"tasks": int64(nt), "sql_seam": int64(r.Intn(2)), "aux_dbs": int64(r.Pick([]int{5, 3, 2}))}
	// task 0: application writer
	for i := 0; i < r.Range(3, 10); i++ {
		st := genAppStep(r, &p.Cfg)
		p.Ops = append(p.Ops, Op{Kind: "app", Step: &st, Level: 0})
	}
	lifecycle := r.Chance(0.4)
	for tk := 1; tk <= nt; tk++ {
		n := r.Range(2, 7)
		for i := 0; i < n; i++ {
			var op Op
			switch r.Pick([]int{14, 8, 12, 10, 8, 6, 8, 4, 4, 8, 0}) {
			case 0:
				op = Op{Kind: "ls_sync"}
			case 1:
				op = Op{Kind: "ls_replica_sync"}
			case 2:
				op = Op{Kind: "ls_sync_wait"}
			case 3:
				op = Op{Kind: "ls_ckpt", Mode: ckptModes[r.Pick([]int{5, 2, 2, 4})]}
			case 4:
				op = Op{Kind: "ls_snapshot"}
			case 5:
				op = Op{Kind: "ls_snapshot_reader", N: int64(r.Intn(3))} // 0 read all, 1 read half then close, 2 close immediately
			case 6:
				lv := r.Range(1, len(p.Cfg.LevelMs))
				if r.Chance(0.3) {
					lv = 9
				}
				op = Op{Kind: "ls_compact", N: int64(lv)}
			case 7:
				op = Op{Kind: "ls_snap_retention"}
			case 8:
				op = Op{Kind: "ls_l0_retention"}
			default:
				op = Op{Kind: "status"}
			}
			if lifecycle && r.Chance(0.3) {
				op = Op{Kind: PickOf(r, []string{"register", "register", "unregister", "disable", "enable"})}
			}
			if lifecycle && r.Chance(0.07) {
				op = Op{Kind: "store_close"} // shutdown while other operations are still running
			}
			if op.Kind == "unregister" || op.Kind == "disable" || op.Kind == "store_close" {
				// the control server calls these with a deadline: it may expire while
				// the call waits for an operation that holds the executor
				op.Ms = []int64{0, 0, 1, 1000, 30000}[r.Intn(5)]
			}
			op.Level = tk
			p.Ops = append(p.Ops, op)
		}
	}
	// one compaction monitor per level, as in the daemon: every level belongs to
	// one task, compactions of one level are never issued concurrently
	owner := func(lv int) int {
		if lv == 9 {
			return nt
		}
		return 1 + (lv-1)%nt
	}
	for i := range p.Ops {
		// (CONC programs: Op.Level is the task, Op.N the compaction level)
		if op := &p.Ops[i]; op.Kind == "ls_compact" && owner(int(op.N)) != op.Level {
			var mine []int
			for _, lv := range []int{1, 2, 9} {
				if (lv == 9 || lv <= len(p.Cfg.LevelMs)) && owner(lv) == op.Level {
					mine = append(mine, lv)
				}
			}
			if len(mine) == 0 {
				*op = Op{Kind: "status", Level: op.Level}
			} else {
				op.N = int64(mine[r.Intn(len(mine))])
			}
		}
	}
	p.Params["level_owner"] = 1
	p.Params["sticky"] = int64(r.Pick([]int{5, 2, 3}) * 400) // 0, 400, 800 per mille
	// long delays: a task stays parked at one site (a slow remote call, a lock
	// holder that is not scheduled) while the others run on
	if r.Chance(0.5) {
		sites := []string{"client:list:done", "client:list:done:L1", "client:list:done:L0", "client:write:done", "client:open:done", "client:list", "client:write", "client:", "pos:", "pos:",
			"db:", "replica:", "snapshot:", "compact:", "ckpt:", "phase:", "sql:", ""}
		for i := 0; i < r.Range(1, 2); i++ {
			p.Holds = append(p.Holds, Hold{Task: r.Range(1, nt), Site: PickOf(r, sites), Nth: r.Range(1, 6), Len: r.Range(20, 150)})
		}
	}
	switch r.Pick([]int{50, 20, 20, 10}) {
	case 1:
		genC12ColdCache(r, p)
	case 2:
		genC12ColdPos(r, p)
	case 3:
		genC12RetentionVsCompaction(r, p)
	}
	for i := 0; i < 400 || i < int(p.Params["max_steps"]); i++ {
		p.Schedule = append(p.Schedule, r.Intn(1000))
	}
	return p
}

// genC12ColdCache: a restart (disable/enable: a cold per-level cache) while the
// monitors of two levels run: the level-2 monitor looks up the newest level-1
// file as its source while the level-1 monitor compacts, with transactions
// arriving in between; afterwards level 1 is compacted again.
func genC12ColdCache(r *Rng, p *Program) {
	p.Variant = "cold-cache"
	p.Cfg.LevelMs = []int64{2000, 9000}
	p.Cfg.L0RetentionMs = 300000
	p.Params["tasks"] = 3
	p.Params["aux_dbs"] = 0
	p.Params["sticky"] = 850
	p.Params["max_steps"] = 2500
	p.Ops = nil
	for i := 0; i < r.Range(30, 45); i++ {
		st := genTxn(r, &p.Cfg)
		st.Rollback = false
		p.Ops = append(p.Ops, Op{Kind: "app", Step: &st, Level: 0})
	}
	add := func(tk int, ops ...Op) {
		for _, op := range ops {
			op.Level = tk
			p.Ops = append(p.Ops, op)
		}
	}
	for i := 0; i < r.Range(8, 12); i++ { // level-1 monitor
		add(1, Op{Kind: "ls_sync_wait"}, Op{Kind: "ls_compact", N: 1})
	}
	add(2, Op{Kind: "ls_sync_wait"}, Op{Kind: "ls_compact", N: 2}) // level-2 monitor, restarts
	for i := 0; i < r.Range(2, 4); i++ {
		add(2, Op{Kind: "disable"}, Op{Kind: "enable"}, Op{Kind: "ls_sync"}, Op{Kind: "ls_compact", N: 2})
	}
	for i := 0; i < r.Range(2, 5); i++ {
		add(3, Op{Kind: PickOf(r, []string{"ls_sync_wait", "ls_sync", "ls_replica_sync", "status"})})
	}
	p.Holds = []Hold{{Task: 2, Site: "client:list:done:L1", Nth: r.Range(1, 5), Len: r.Range(30, 150)}}
	if r.Chance(0.5) {
		p.Holds = append(p.Holds, Hold{Task: r.Range(1, 2), Site: "client:", Nth: r.Range(1, 20), Len: r.Range(30, 150)})
	}
}

// genC12RetentionVsCompaction: snapshot retention (and its cascade to the lower
// levels) runs while the level-2 monitor sits between listing level 1 and
// opening the files it listed.
func genC12RetentionVsCompaction(r *Rng, p *Program) {
	p.Variant = "retention-vs-compaction"
	p.Cfg.LevelMs = []int64{2000, 9000}
	p.Cfg.SnapshotRetentionMs = 20000
	p.Cfg.L0RetentionMs = []int64{0, 1000}[r.Intn(2)]
	p.Cfg.RetentionEnabled = true
	p.Params["tasks"] = 3
	p.Params["aux_dbs"] = 0
	p.Params["sticky"] = 850
	p.Params["max_steps"] = 2500
	p.Ops = nil
	for i := 0; i < r.Range(25, 40); i++ {
		st := genTxn(r, &p.Cfg)
		st.Rollback = false
		p.Ops = append(p.Ops, Op{Kind: "app", Step: &st, Level: 0})
	}
	add := func(tk int, ops ...Op) {
		for _, op := range ops {
			op.Level = tk
			p.Ops = append(p.Ops, op)
		}
	}
	for i := 0; i < r.Range(8, 12); i++ {
		add(1, Op{Kind: "ls_sync_wait"}, Op{Kind: "ls_compact", N: 1})
	}
	// the level-2 monitor starts late (level 2 is several level-1 files behind)
	for i := 0; i < r.Range(6, 14); i++ {
		add(2, Op{Kind: "status"}, Op{Kind: "ls_replica_sync"})
	}
	for i := 0; i < r.Range(3, 6); i++ {
		add(2, Op{Kind: "ls_compact", N: 2}, Op{Kind: "status"})
	}
	for i := 0; i < r.Range(10, 16); i++ {
		add(3, Op{Kind: "ls_compact", N: 9}, Op{Kind: "ls_snap_retention"})
	}
	p.Params["max_steps"] = 4000
	p.Holds = []Hold{{Task: 2, Site: "client:list:done:L1", Nth: r.Range(1, 3), Len: r.Range(300, 700)}}
	if r.Chance(0.5) {
		p.Holds = append(p.Holds, Hold{Task: 2, Site: "client:list:done:L1", Nth: r.Range(3, 6), Len: r.Range(300, 700)})
	}
}

// genC12ColdPos: level-0 retention keeps emptying the cached position while
// status queries and uploads (which read the position back from disk) run
// beside syncs that publish new positions; one reader is held after its read.
func genC12ColdPos(r *Rng, p *Program) {
	p.Variant = "cold-pos"
	p.Cfg.LevelMs = []int64{2000}
	p.Cfg.L0RetentionMs = []int64{0, 1, 1000}[r.Intn(3)]
	p.Params["tasks"] = 3
	p.Params["aux_dbs"] = 0
	p.Params["sticky"] = 850
	p.Params["max_steps"] = 2500
	p.Ops = nil
	for i := 0; i < r.Range(25, 40); i++ {
		st := genTxn(r, &p.Cfg)
		st.Rollback = false
		p.Ops = append(p.Ops, Op{Kind: "app", Step: &st, Level: 0})
	}
	add := func(tk int, ops ...Op) {
		for _, op := range ops {
			op.Level = tk
			p.Ops = append(p.Ops, op)
		}
	}
	for i := 0; i < r.Range(6, 10); i++ { // level-1 monitor: compaction ends with level-0 retention; then a status query
		add(1, Op{Kind: "ls_sync_wait"}, Op{Kind: PickOf(r, []string{"ls_compact", "ls_compact", "ls_l0_retention"}), N: 1}, Op{Kind: "status"})
	}
	for i := 0; i < r.Range(8, 14); i++ {
		add(2, Op{Kind: PickOf(r, []string{"ls_sync", "ls_replica_sync", "status"})})
	}
	for i := 0; i < r.Range(6, 12); i++ {
		add(3, Op{Kind: PickOf(r, []string{"ls_sync", "ls_replica_sync", "ls_sync_wait"})})
	}
	p.Holds = []Hold{{Task: -1, Site: "pos:", Nth: r.Range(1, 3), Len: r.Range(30, 150)}}
	if r.Chance(0.5) {
		p.Holds = append(p.Holds, Hold{Task: -1, Site: "pos:", Nth: r.Range(2, 6), Len: r.Range(30, 150)})
	}
}

// taskPanic classifies a panic that escaped from a task: if the innermost frames
// below the panic are litestream's, an operation of the daemon crashed (what
// would take the whole process down) - a violation; if they are the harness's
// own, harness trouble.
//
//go:norace
func taskPanic(e *Env, res *Result, msg, stack string) {
	lines := strings.Split(stack, "\n")
	inLS := false
	seenPanic := false
	for _, l := range lines {
		if strings.HasPrefix(l, "panic(") {
			seenPanic = true
			continue
		}
		if !seenPanic || strings.HasPrefix(l, "\t") {
			continue
		}
		if strings.HasPrefix(l, "runtime.") || strings.HasPrefix(l, "sync.") || strings.HasPrefix(l, "slices.") {
			continue
		}
		inLS = strings.HasPrefix(l, "github.com/benbjohnson/litestream")
		break
	}
	if len(stack) > 2500 {
		stack = stack[:2500]
	}
	if inLS {
		if res.Violation == nil {
			res.Violation = &Violation{Property: "C12", Class: "operation-panicked", Msg: "a daemon operation panicked: " + msg + " | " + e.san(strings.ReplaceAll(stack, "\n", " | ")), Facts: map[string]any{}}
		}
	} else if res.Trouble == "" {
		res.Trouble = "panic in a task (harness): " + msg + " " + e.san(stack)
	}
}

type concTaskLog struct {
	events []string
	probes map[string]int
}

func runC12(t testingT, p *Program) *Result {
	// one P: goroutines of the run never execute in parallel; which one runs is
	// decided by the scheduler's grants (and, for helper goroutines of one
	// operation, by channel hand-offs)
	defer runtime.GOMAXPROCS(runtime.GOMAXPROCS(1))
	res := &Result{Seed: p.Seed, Probes: map[string]int{}, FaultsHit: map[string]int{}}
	wall := time.Now()
	base := os.Getenv("VERIF_TMP")
	if base == "" {
		base = "/dev/shm"
	}
	dir := filepath.Join(base, fmt.Sprintf("verif-%d-%d", os.Getpid(), runCounter.Add(1)))
	os.RemoveAll(dir)
	os.MkdirAll(dir, 0o755)
	defer os.RemoveAll(dir)
	e := &Env{Prog: p, Dir: dir, DBPath: filepath.Join(dir, "db"), RepDir: filepath.Join(dir, "replica"),
		Scratch: filepath.Join(dir, "scratch"), Res: res, siteCount: map[string]int{}, SitesSeen: map[string]int{}}
	os.MkdirAll(e.Scratch, 0o755)
	e.Probe = newProbeHandler()
	prevLogger := slog.Default()
	// no log collection in this engine: a shared handler would order the tasks
	// through its mutex and blind the race detector
	slog.SetDefault(slog.New(discardHandler{}))
	defer slog.SetDefault(prevLogger)
	done := make(chan struct{})
	var panicked any
	go func() {
		defer close(done)
		defer func() {
			if r := recover(); r != nil {
				panicked = r
			}
		}()
		bubble(t, func() { runC12Bubble(e, p, res) })
	}()
	<-done
	verifhook.YieldHook = nil
	if panicked != nil && res.Violation == nil && res.Trouble == "" {
		msg := fmt.Sprint(panicked)
		if strings.Contains(msg, "deadlock: all goroutines in bubble are blocked") {
			res.Violation = &Violation{Property: "C12", Class: "deadlock", Msg: "all goroutines of the run ended up blocked: " + e.san(tail(msg, 1500)), Facts: map[string]any{}}
		} else {
			if len(msg) > 2500 {
				msg = msg[:2500]
			}
			res.Trouble = "panic: " + e.san(msg)
		}
	}
	if res.Violation != nil {
		hasReg, hasUnreg := false, false
		for _, op := range p.Ops {
			if op.Kind == "register" {
				hasReg = true
			}
			if op.Kind == "unregister" {
				hasUnreg = true
			}
		}
		if res.Violation.Facts == nil {
			res.Violation.Facts = map[string]any{}
		}
		res.Violation.Facts["register_and_unregister"] = hasReg && hasUnreg
	}
	res.Events = e.Events
	for k, v := range e.Probe.counts {
		res.Probes["log:"+k] = v
	}
	res.WallMs = time.Since(wall).Milliseconds()
	return res
}

func runC12Bubble(e *Env, p *Program, res *Result) {
	start := time.Now()
	cfg := &p.Cfg
	app, err := CreateAppDB(e.DBPath, cfg, p.Seed)
	if err != nil {
		res.Trouble = "create app db: " + err.Error()
		return
	}
	e.App = app
	if e.Led, err = NewLedger(e.DBPath); err != nil {
		res.Trouble = "ledger: " + err.Error()
		return
	}
	e.FS = NewFaultStore(nil, nil)
	e.FS.Locked = true
	// the database file as it was when a snapshot upload began (file I/O only, no
	// memory shared with other tasks): decides the fact of finding F7
	e.FS.SnapshotSource = func() *State {
		img, err := os.ReadFile(e.DBPath)
		if err != nil || e.Led == nil || e.Led.PageSize == 0 {
			return nil
		}
		return StateFromImage(img, e.Led.PageSize)
	}
	// every remote call of litestream is a scheduling point, before it is issued
	// and after it returned (the task then holds whatever the caller holds)
	e.WrapClient = func(inner litestream.ReplicaClient) litestream.ReplicaClient {
		return &taskYieldClient{ReplicaClient: inner}
	}
	if p.Params["sql_seam"] == 1 {
		installSQLSeam() // every SQL statement of litestream is a scheduling point
	} else {
		uninstallSQLSeam()
	}
	defer uninstallSQLSeam()
	if err := e.startLS(); err != nil {
		res.Trouble = "start litestream: " + err.Error()
		return
	}
	store := e.LS.Store
	levels := e.LS.Levels
	ctx := context.Background()
	// further (idle) databases managed by the same store, registered after the
	// one under test: the store's list then has more than one element, so that
	// removing the first one moves the others
	var auxDBs []*litestream.DB
	for i := 0; i < int(p.Params["aux_dbs"]); i++ {
		ap := filepath.Join(e.Dir, fmt.Sprintf("aux%d.db", i))
		if sdb, err := sql.Open("sqlite", "file:"+ap+"?_pragma=busy_timeout(0)&_pragma=journal_mode(wal)"); err == nil {
			sdb.Exec("CREATE TABLE t (x)")
			sdb.Exec("INSERT INTO t VALUES (1)")
			sdb.Close()
		}
		ad := litestream.NewDB(ap)
		ad.MonitorInterval = 0
		ad.BusyTimeout = 0
		ac := file.NewReplicaClient(filepath.Join(e.Dir, fmt.Sprintf("aux%d-replica", i)))
		ar := litestream.NewReplicaWithClient(ad, ac)
		ac.Replica = ar
		ar.MonitorEnabled = false
		ad.Replica = ar
		if err := store.RegisterDB(ad); err != nil {
			res.Trouble = "register aux db: " + err.Error()
			return
		}
		auxDBs = append(auxDBs, ad)
	}
	nt := int(p.Params["tasks"])
	sch := NewSched(p.Schedule)
	sch.NoHB = true
	sch.MaxSteps = 600
	sch.Sticky = int(p.Params["sticky"])
	sch.Holds = p.Holds
	sch.TraceBlocked = os.Getenv("VERIF_TRACE_BLOCKED") != ""
	if ms := int(p.Params["max_steps"]); ms > 0 {
		sch.MaxSteps = ms
	}
	sch.Advances = []time.Duration{time.Millisecond, time.Second, 10 * time.Second}
	logs := make([]*concTaskLog, nt+1)
	var extraDBs []*litestream.DB // created by register ops (appended by tasks; read after all tasks ended)
	extraCh := make(chan *litestream.DB, 64)
	verifhook.YieldHook = func(site string) {
		if tk := sch.TaskOf(); tk != nil {
			tk.Yield(site)
		}
	}
	verifTask = sch.TaskOf
	for tk := 0; tk <= nt; tk++ {
		tk := tk
		lg := &concTaskLog{probes: map[string]int{}}
		logs[tk] = lg
		var myops []Op
		for _, op := range p.Ops {
			if op.Level == tk {
				myops = append(myops, op)
			}
		}
		sch.Go(fmt.Sprintf("t%d", tk), func(task *Task) {
			defer func() {
				if rec := recover(); rec != nil {
					st := string(debug.Stack())
					taskPanic(e, res, fmt.Sprint(rec), st)
				}
			}()
			for i := range myops {
				op := &myops[i]
				var r string
				if op.Kind == "app" {
					r = e.App.Do(op.Step)
					task.Yield("app")
				} else {
					r = concExec(ctx, e, store, levels, op, extraCh, lg)
					if sch.Sticky > 0 {
						task.Yield("op") // operation boundary: the burst ends here
					}
				}
				lg.events = append(lg.events, e.san(fmt.Sprintf("t%d %s%s -> %s", tk, op.Kind, op.Mode, r)))
			}
		})
	}
	// the scheduler goroutine observes the WAL after every step (no shared memory with tasks)
	sch.OnStep = func() error {
		tag := "ls"
		if n := len(sch.Trace); n > 0 && strings.HasPrefix(sch.Trace[n-1], "run t0@") {
			tag = "app"
		}
		if _, err := e.Led.Observe(tag); err != nil {
			return err
		}
		return nil
	}
	if err := sch.Run(); err != nil && res.Trouble == "" {
		res.Trouble = "scheduler: " + err.Error()
	}
	stuck := sch.Drain(30*time.Second, 6000)
	synctest.Wait()
	e.Led.Observe("ls")
	close(extraCh)
	for d := range extraCh {
		extraDBs = append(extraDBs, d)
	}
	for tk, lg := range logs {
		e.Events = append(e.Events, lg.events...)
		for k, v := range lg.probes {
			res.Probes[k] += v
		}
		_ = tk
	}
	e.Events = append(e.Events, sch.Trace...)
	res.Ops = sch.Steps
	res.Probes["sched_steps"] = sch.Steps
	res.Probes["holds_hit"] = sch.HoldsHit
	if sch.SlowSettles > 0 {
		res.Probes["slow_settles"] = sch.SlowSettles
	}
	res.Probes["tasks"] = nt + 1
	switches := 0
	prev := ""
	for _, tr := range sch.Trace {
		if strings.HasPrefix(tr, "run ") {
			name := strings.SplitN(tr[4:], "@", 2)[0]
			if name != prev {
				switches++
			}
			prev = name
		}
	}
	res.Probes["context_switches"] = switches
	if res.Violation != nil || res.Trouble != "" {
		return // an operation panicked: locks it held stay taken, nothing further is meaningful
	}
	if len(stuck) > 0 {
		// does the call come back once the application ends the transaction it
		// still holds? Then it was busy-looping (or waiting) on the application,
		// which is a different finding from a call that is lost for good.
		if e.App.readerTx || e.App.holding {
			e.App.Do(&Step{K: "hold_rollback"})
			e.App.Do(&Step{K: "reader_end"})
			if stuck2 := sch.Drain(30*time.Second, 6000); len(stuck2) == 0 {
				v := e.fail("call-spins-until-app-transaction-ends", "these calls did not return within 6000 scheduling steps and several simulated minutes while the application kept a transaction open, and returned once it ended: %v", stuck)
				fs := int64(e.Led.PageSize + 24)
				v.Facts["tiny_sync_chunk"] = e.Prog.Cfg.MaxSyncWALBytes > 0 && e.Prog.Cfg.MaxSyncWALBytes <= fs
				res.Violation = v
				return
			}
		}
		res.Violation = e.fail("call-never-returns", "after the schedule ended and every yield was released, these calls still have not returned: %v", stuck)
		return
	}
	// no lock outlives the calls: at quiescence the executor semaphore and the
	// checkpoint lock of every instance are free
	res.Checks++
	lockDBs := append([]*litestream.DB{}, extraDBs...)
	lockDBs = append(lockDBs, auxDBs...)
	for _, d := range store.DBs() {
		lockDBs = append(lockDBs, d)
	}
	if e.LS.DB != nil {
		lockDBs = append(lockDBs, e.LS.DB)
	}
	for _, d := range lockDBs {
		if execFree, chkFree := d.VerifLocksFree(); !execFree || !chkFree {
			res.Violation = e.fail("leaked-lock", "every call has returned and every snapshot reader is closed, yet a DB instance still has its executor semaphore taken=%v / checkpoint lock taken=%v (checkpoints will be skipped for the rest of the process)", !execFree, !chkFree)
			return
		}
	}
	// single managed instance per path
	n := 0
	var managed *litestream.DB
	for _, d := range store.DBs() {
		if d.Path() == e.DBPath {
			n++
			managed = d
		}
	}
	res.Checks++
	if n > 1 {
		res.Violation = e.fail("duplicate-registration", "the store manages %d instances for the same path after concurrent RegisterDB calls", n)
		return
	}
	for _, d := range extraDBs {
		if d != managed && d.IsOpen() {
			res.Violation = e.fail("orphan-instance-open", "a DB instance that lost the registration race is still open (holds the source database)")
			return
		}
	}
	// C01 at quiescence (if an instance is still managed and open)
	e.App.Do(&Step{K: "hold_rollback"})
	e.App.Do(&Step{K: "reader_end"})
	e.Led.Observe("app")
	if managed != nil && managed.IsOpen() {
		e.LS.DB = managed
		e.AckStartApp = e.Led.LastApp
		var serr error
		for a := 0; a < 3; a++ {
			if serr = managed.SyncAndWait(ctx); serr == nil {
				break
			}
			time.Sleep(time.Second)
		}
		e.Led.Observe("ls")
		if serr == nil {
			if v := e.checkAckC01(len(p.Ops)); v != nil {
				res.Violation = v
				return
			}
			res.Acks++
		} else {
			res.Probes["final_sync_failed"]++
		}
	}
	// C02 + snapshot content on the archive
	c, v := e.buildChain()
	if v == nil {
		v = e.auditHigherLevels(c)
		if v != nil && (v.Class == "level-first-not-1" || v.Class == "level-not-contiguous" || v.Class == "compaction-timestamp") {
			v = nil
		}
		if v != nil && v.Class == "level-overlap" && p.Params["level_owner"] != 1 {
			v = nil // compactions of one level were issued concurrently (not what the daemon does)
		}
	}
	if v != nil {
		res.Violation = v
		return
	}
	res.Probes["chain:txids"] = int(c.N)
	// Close always completes ...
	e.event("fds before store.Close: %v", openFDs(e.DBPath))
	closed := make(chan error, 1)
	go func() { closed <- store.Close(ctx) }()
	synctest.Wait()
	select {
	case <-closed:
	default:
		// durably blocked without any timer pending? give timers a chance (shutdown retry)
		time.Sleep(2 * time.Minute)
		synctest.Wait()
		select {
		case <-closed:
		default:
			res.Violation = e.fail("close-hangs", "Store.Close did not return (blocked with no timer pending)")
			return
		}
	}
	for _, d := range extraDBs {
		if d.IsOpen() {
			_ = d.Close(ctx)
		}
	}
	e.LS = nil
	e.event("fds after store.Close: %v", openFDs(e.DBPath))
	// ... and leaves the source free of litestream's lock and handles
	e.App.Close()
	e.event("fds after app.Close: %v", openFDs(e.DBPath))
	res.Checks++
	if leaked := openFDs(e.DBPath); len(leaked) > 0 {
		res.Violation = e.fail("leaked-handle", "after Close the process still holds file descriptors on the source database: %v", leaked)
		return
	}
	db, err := sql.Open("sqlite", "file:"+e.DBPath+"?_pragma=busy_timeout(0)")
	if err == nil {
		db.SetMaxOpenConns(1)
		var a, b, c2 int
		if err := db.QueryRow("PRAGMA wal_checkpoint(TRUNCATE)").Scan(&a, &b, &c2); err != nil || a != 0 {
			res.Violation = e.fail("leaked-lock", "after Close an external connection cannot TRUNCATE-checkpoint the source (busy=%d, err=%v): a read lock is still held", a, err)
		}
		if _, err := db.Exec("BEGIN EXCLUSIVE"); err != nil && res.Violation == nil {
			res.Violation = e.fail("leaked-lock", "after Close an external connection cannot take an EXCLUSIVE lock: %v", err)
		} else {
			db.Exec("ROLLBACK")
		}
		db.Close()
	}
	res.SimMs = time.Since(start).Milliseconds()
}

func openFDs(dbPath string) []string {
	var out []string
	ents, err := os.ReadDir("/proc/self/fd")
	if err != nil {
		return nil
	}
	for _, x := range ents {
		l, err := os.Readlink("/proc/self/fd/" + x.Name())
		if err != nil {
			continue
		}
		if l == dbPath || l == dbPath+"-wal" || l == dbPath+"-shm" {
			out = append(out, filepath.Base(l))
		}
	}
	return out
}

// concExec executes one daemon operation from a task. It touches only
// litestream (the code under test) and the task's own log.
func concExec(ctx context.Context, e *Env, store *litestream.Store, levels litestream.CompactionLevels, op *Op, extra chan *litestream.DB, lg *concTaskLog) string {
	db := store.FindDB(e.DBPath)
	if op.Ms > 0 && (op.Kind == "unregister" || op.Kind == "disable" || op.Kind == "store_close") {
		var cancel context.CancelFunc
		ctx, cancel = context.WithTimeout(ctx, time.Duration(op.Ms)*time.Millisecond)
		defer cancel()
		lg.probes["lifecycle_calls_with_deadline"]++
	}
	switch op.Kind {
	case "register":
		nd := litestream.NewDB(e.DBPath)
		nd.MonitorInterval = 0
		nd.BusyTimeout = 0
		// its own client object (as the daemon creates one per instance) that
		// reports every upload to the shared archive
		client := file.NewReplicaClient(e.RepDir)
		r := litestream.NewReplicaWithClient(nd, &archClient{ReplicaClient: client, fs: e.FS})
		client.Replica = r
		r.MonitorEnabled = false
		nd.Replica = r
		extra <- nd
		lg.probes["register_calls"]++
		return errStr(store.RegisterDB(nd))
	case "store_close":
		lg.probes["store_close_calls"]++
		return errStr(store.Close(ctx))
	case "unregister":
		lg.probes["unregister_calls"]++
		return errStr(store.UnregisterDB(ctx, e.DBPath))
	case "disable":
		return errStr(store.DisableDB(ctx, e.DBPath))
	case "enable":
		return errStr(store.EnableDB(ctx, e.DBPath))
	}
	if db == nil {
		return "noop:unregistered"
	}
	switch op.Kind {
	case "ls_sync":
		return errStr(db.Sync(ctx))
	case "ls_replica_sync":
		return errStr(db.Replica.Sync(ctx))
	case "ls_sync_wait":
		_, err := store.SyncDB(ctx, e.DBPath, true)
		return errStr(err)
	case "ls_ckpt":
		return errStr(db.Checkpoint(ctx, op.Mode))
	case "ls_snapshot":
		_, err := db.Snapshot(ctx)
		return errStr(err)
	case "ls_snapshot_reader":
		pos, rd, err := db.SnapshotReader(ctx)
		if err != nil {
			return errStr(err)
		}
		lg.probes["snapshot_readers"]++
		switch op.N {
		case 0:
			_, err = io.Copy(io.Discard, rd)
		case 1:
			buf := make([]byte, 700)
			rd.Read(buf)
			if tk := verifTask(); tk != nil {
				tk.Yield("snapshot_reader:half")
			}
		}
		rd.Close()
		return fmt.Sprintf("ok pos=%d %v", pos.TXID, err)
	case "ls_compact":
		var lvl *litestream.CompactionLevel
		lv := int(op.N) // CONC programs: Op.Level is the task
		if lv == 0 {
			lv = op.Level // programs recorded before the level had its own field
		}
		if lv == litestream.SnapshotLevel {
			lvl = store.SnapshotLevel()
		} else if lv >= 1 && lv < len(levels) {
			lvl = levels[lv]
		} else {
			return "noop:level"
		}
		_, err := store.CompactDB(ctx, db, lvl)
		return errStr(err)
	case "ls_snap_retention":
		return errStr(store.EnforceSnapshotRetention(ctx, db))
	case "ls_l0_retention":
		return errStr(db.EnforceL0RetentionByTime(ctx))
	case "status":
		_, err := db.SyncStatus(ctx)
		_ = db.SyncDiagnostic()
		_, _ = db.Pos()
		_ = db.IsOpen()
		_ = db.PageSize()
		return errStr(err)
	}
	return "noop:" + op.Kind
}

// archClient forwards to its own client and records uploads/deletes in the
// run's shared archive.
// taskYieldClient parks the calling task before and after the listing, open and
// write calls of the replica client (CONC engine).
type taskYieldClient struct {
	litestream.ReplicaClient
}

func yieldTask(site string) {
	if tk := verifTask(); tk != nil {
		tk.Yield(site)
	}
}

func (c *taskYieldClient) LTXFiles(ctx context.Context, level int, seek ltx.TXID, useMetadata bool) (ltx.FileIterator, error) {
	yieldTask(fmt.Sprintf("client:list:L%d", level))
	itr, err := c.ReplicaClient.LTXFiles(ctx, level, seek, useMetadata)
	yieldTask(fmt.Sprintf("client:list:done:L%d", level))
	return itr, err
}

func (c *taskYieldClient) WriteLTXFile(ctx context.Context, level int, minTXID, maxTXID ltx.TXID, r io.Reader) (*ltx.FileInfo, error) {
	yieldTask("client:write")
	info, err := c.ReplicaClient.WriteLTXFile(ctx, level, minTXID, maxTXID, r)
	yieldTask("client:write:done")
	return info, err
}

func (c *taskYieldClient) OpenLTXFile(ctx context.Context, level int, minTXID, maxTXID ltx.TXID, offset, size int64) (io.ReadCloser, error) {
	yieldTask("client:open")
	return c.ReplicaClient.OpenLTXFile(ctx, level, minTXID, maxTXID, offset, size)
}

type archClient struct {
	litestream.ReplicaClient
	fs *FaultStore
}

func (a *archClient) WriteLTXFile(ctx context.Context, level int, minTXID, maxTXID ltx.TXID, r io.Reader) (*ltx.FileInfo, error) {
	var buf bytes.Buffer
	var dbImage *State
	if level == litestream.SnapshotLevel && a.fs.SnapshotSource != nil {
		dbImage = a.fs.SnapshotSource()
	}
	info, err := a.ReplicaClient.WriteLTXFile(ctx, level, minTXID, maxTXID, io.TeeReader(r, &buf))
	if err == nil {
		a.fs.archiveWithImage(level, minTXID, maxTXID, buf.Bytes(), -1, info.CreatedAt, dbImage)
	}
	return info, err
}

var verifTask = func() *Task { return nil }

type discardHandler struct{}

func (discardHandler) Enabled(context.Context, slog.Level) bool  { return false }
func (discardHandler) Handle(context.Context, slog.Record) error { return nil }
func (d discardHandler) WithAttrs([]slog.Attr) slog.Handler      { return d }
func (d discardHandler) WithGroup(string) slog.Handler           { return d }

func init() {
	register(&Prop{ID: "C12", Engine: "CONC", Gen: genC12, Run: runC12, Nontrivial: func(r *Result) bool {
		return r.Probes["context_switches"] >= 3
	}})
}
