//go:build vfs

package sim

import (
	"bytes"
	"context"
	"fmt"
	"io"
	"time"

	"github.com/benbjohnson/litestream"
	"github.com/benbjohnson/litestream/file"
	_ "github.com/mattn/go-sqlite3"
	"github.com/psanford/sqlite3vfs"
	"github.com/superfly/ltx"
)

// C18 — a VFS read replica serves the same pages as a full restore.
//
// HIST engine built with tags verif,vfs (cgo). The primary history runs as in
// C01/C06/C07; a VFSFile (real read path) is opened on the replica and polled at
// program-chosen points (exactly one poll per op via the guarded export), with
// the VFS file's SQLite lock state varied between NONE and SHARED.

func genC18(r *Rng, tier string, idx int) *Program {
	p := &Program{Property: "C18", Engine: "HIST"}
	p.Cfg = genConfig(r)
	if p.Cfg.PageSize > 16384 {
		p.Cfg.PageSize = 4096
	}
	p.Cfg.AutoVacuum = r.Pick([]int{3, 4, 3}) // shrink matters here
	_ = idx
	p.Cfg.LevelMs = []int64{2000, 9000}[:r.Range(1, 2)]
	p.Cfg.L0RetentionMs = []int64{0, 1, 300000}[r.Intn(3)]
	p.Cfg.SnapshotRetentionMs = 24 * 3600 * 1000
	p.Cfg.StepGapMs = 1000
	p.Ops = append(p.Ops, appOp(genTxn(r, &p.Cfg)), Op{Kind: "ls_sync_wait"}, Op{Kind: "vfs_open"})
	// Known findings F4 (partial shrink) and F21/F22 (higher-level files) are
	// excluded from 40% / 70% of the runs so that other violations cannot hide
	// behind their signatures.
	wShrink, wCompact := 8, 8
	switch {
	case idx%10 < 4:
		p.Variant = "growth-only"
		wShrink, wCompact = 0, 0
		p.Cfg.AutoVacuum = 0
	case idx%10 < 7:
		p.Variant = "compaction-no-shrink"
		wShrink = 0
		p.Cfg.AutoVacuum = 0
	default:
		p.Variant = "shrink-and-compaction"
	}
	noShrink := wShrink == 0
	n := r.Range(8, 35)
	if idx%10 == 9 {
		// complete shrinks only (VACUUM rewrites every page), level-0 files only, no
		// re-open and no time travel: outside every listed precondition of finding
		// F4, so any difference in this variant is reported. The reader holds its
		// SHARED lock across several polls while the primary shrinks.
		p.Variant = "vacuum-under-lock"
		p.Cfg.AutoVacuum = 0
		for i := 0; i < r.Range(2, 5); i++ {
			p.Ops = append(p.Ops, appOp(genTxn(r, &p.Cfg)), Op{Kind: "ls_sync_wait"})
			if r.Chance(0.5) {
				p.Ops = append(p.Ops, Op{Kind: "vfs_poll"})
			}
			locked := r.Chance(0.7)
			if locked {
				p.Ops = append(p.Ops, Op{Kind: "vfs_lock"})
			}
			p.Ops = append(p.Ops, appOp(Step{K: "txn", Stmts: []Stmt{{K: "del", T: r.Intn(2), Key: r.Intn(100), N: r.Range(50, 400)}}}))
			if r.Chance(0.5) {
				p.Ops = append(p.Ops, Op{Kind: "ls_sync_wait"})
			}
			p.Ops = append(p.Ops, appOp(Step{K: "vacuum"}), Op{Kind: "ls_sync_wait"})
			for j := 0; j < r.Range(1, 3); j++ {
				if r.Chance(0.4) {
					p.Ops = append(p.Ops, appOp(genTxn(r, &p.Cfg)), Op{Kind: "ls_sync_wait"})
				}
				p.Ops = append(p.Ops, Op{Kind: "vfs_poll"})
			}
			if locked {
				p.Ops = append(p.Ops, Op{Kind: "vfs_unlock"})
			}
			p.Ops = append(p.Ops, Op{Kind: "vfs_poll"})
		}
		p.Ops = append(p.Ops, Op{Kind: "ls_sync_wait"}, Op{Kind: "vfs_unlock"}, Op{Kind: "vfs_poll"})
		return p
	}
	for i := 0; i < n; i++ {
		switch r.Pick([]int{30, wShrink, 20, wCompact, wCompact / 2, wCompact / 2, 14, 4, 4, 3, 2}) {
		case 0:
			st := genAppStep(r, &p.Cfg)
			if noShrink {
				// growth only: no deletes, drops, vacuum
				if st.K == "vacuum" || st.K == "incr_vacuum" {
					st = genTxn(r, &p.Cfg)
				}
				var keep []Stmt
				for _, x := range st.Stmts {
					if x.K == "ins" || x.K == "upd" || x.K == "ctab" || x.K == "cidx" {
						keep = append(keep, x)
					}
				}
				st.Stmts = keep
			}
			p.Ops = append(p.Ops, appOp(st))
		case 1: // shrink: big delete (+ vacuum)
			p.Ops = append(p.Ops, appOp(Step{K: "txn", Stmts: []Stmt{{K: "del", T: r.Intn(2), Key: r.Intn(100), N: r.Range(50, 400)}}}))
			if r.Chance(0.5) {
				p.Ops = append(p.Ops, appOp(Step{K: PickOf(r, []string{"vacuum", "incr_vacuum"}), N: r.Range(1, 30)}))
			}
		case 2:
			p.Ops = append(p.Ops, Op{Kind: "ls_sync_wait"})
		case 3:
			p.Ops = append(p.Ops, Op{Kind: "ls_compact", Level: r.Range(1, len(p.Cfg.LevelMs))})
		case 4:
			p.Ops = append(p.Ops, Op{Kind: "ls_compact", Level: 9})
		case 5:
			p.Ops = append(p.Ops, Op{Kind: "ls_l0_retention"})
		case 6:
			if r.Chance(0.15) {
				op := Op{Kind: "vfs_reopen"}
				if r.Chance(0.6) {
					site := PickOf(r, []string{"vfsclient:open", "vfsclient:open", "vfsclient:list:0", "vfsclient:list:9"})
					op.Interpose = []Interpose{{Site: site, Nth: r.Range(1, 4), Steps: []Step{{K: "vfs_client_fail"}}}}
				}
				p.Ops = append(p.Ops, op)
				break
			}
			p.Ops = append(p.Ops, Op{Kind: "vfs_poll"})
		case 7:
			p.Ops = append(p.Ops, Op{Kind: "vfs_lock"})
		case 8:
			p.Ops = append(p.Ops, Op{Kind: "vfs_unlock"})
		case 9:
			if r.Chance(0.5) {
				p.Ops = append(p.Ops, Op{Kind: "vfs_time_travel", N: int64(r.Intn(1000))})
				break
			}
			// the reader sets a target time while one of its polls is in flight
			// and the primary has published newer files
			p.Ops = append(p.Ops, appOp(genTxn(r, &p.Cfg)), Op{Kind: "ls_sync_wait"})
			site := []string{"vfsclient:list:0", "vfsclient:list:1", "vfsclient:open"}[r.Pick([]int{6, 2, 2})]
			p.Ops = append(p.Ops, Op{Kind: "vfs_poll", Interpose: []Interpose{{Site: site, Nth: r.Range(1, 2), Steps: []Step{{K: "vfs_set_time", N: r.Intn(1000)}}}}},
				Op{Kind: "vfs_check_time"})
		default:
			p.Ops = append(p.Ops, Op{Kind: "sleep", Ms: []int64{2500, 10000}[r.Intn(2)]})
		}
	}
	p.Ops = append(p.Ops, Op{Kind: "ls_sync_wait"}, Op{Kind: "vfs_unlock"}, Op{Kind: "vfs_poll"})
	return p
}

type c18state struct {
	f                 *litestream.VFSFile
	lockedAt          ltx.TXID // position when the SHARED lock was taken (0 = not locked)
	maxPages          uint32   // largest committed size of the source seen so far
	shrunk            bool     // the source's committed size decreased at some point of the run
	traveled          bool
	openedAfterShrink bool // the replica was opened (index built from scratch) after the source had shrunk
	// a target time set while a poll was in flight (checked by vfs_check_time)
	client     *yieldClient
	travelT    time.Time
	travelWant []byte
	travelErr  error
}

// yieldClient is the VFS reader's replica client: every remote call is a
// scheduling point of the simulation (site vfsclient:<call>), so that other
// parties (the reader's own pragma, the primary) can act while a poll is in
// flight.
type yieldClient struct {
	litestream.ReplicaClient
	e *Env
	// failNext: the next remote call of the reader fails (transient error),
	// armed by the interposable step vfs_client_fail
	failNext bool
}

func (c *yieldClient) takeFault(call string) error {
	if c.failNext {
		c.failNext = false
		c.e.Res.FaultsHit["vfs_client_"+call+"_error"]++
		return fmt.Errorf("%s: %w", call, ErrInjected)
	}
	return nil
}

func (c *yieldClient) LTXFiles(ctx context.Context, level int, seek ltx.TXID, useMetadata bool) (ltx.FileIterator, error) {
	if goid() == c.e.mainGID {
		c.e.yield(fmt.Sprintf("vfsclient:list:%d", level))
		if err := c.takeFault("list"); err != nil {
			return nil, err
		}
	}
	return c.ReplicaClient.LTXFiles(ctx, level, seek, useMetadata)
}

func (c *yieldClient) OpenLTXFile(ctx context.Context, level int, minTXID, maxTXID ltx.TXID, offset, size int64) (io.ReadCloser, error) {
	if goid() == c.e.mainGID {
		c.e.yield("vfsclient:open")
		if err := c.takeFault("open"); err != nil {
			return nil, err
		}
	}
	return c.ReplicaClient.OpenLTXFile(ctx, level, minTXID, maxTXID, offset, size)
}

// partialShrinkFile reports whether the replica ever received a level-0 file
// whose commit size is below its predecessor's and which does not carry every
// page of the smaller database (auto_vacuum deletes, incremental_vacuum): the
// precondition of finding F4. A VACUUM rewrites every page, so the file that
// records it is complete and replacing the index with it is correct.
func (e *Env) partialShrinkFile() bool {
	var prevCommit uint32
	for _, ent := range e.FS.ArchSeq {
		if ent.Key.Level != 0 {
			continue
		}
		f, err := decodeLTX(ent.Data)
		if err != nil {
			continue
		}
		if prevCommit != 0 && f.Hdr.Commit < prevCommit {
			have := map[uint32]bool{}
			for _, pg := range f.Order {
				have[pg] = true
			}
			lock := ltx.LockPgno(f.Hdr.PageSize)
			for pg := uint32(1); pg <= f.Hdr.Commit; pg++ {
				if pg != lock && !have[pg] {
					return true
				}
			}
		}
		prevCommit = f.Hdr.Commit
	}
	return false
}

func (e *Env) c18facts(st *c18state, v *Violation) *Violation {
	if v == nil {
		return nil
	}
	v.Facts["source_shrunk"] = st.shrunk
	v.Facts["partial_shrink"] = e.partialShrinkFile()
	v.Facts["higher_level_files"] = len(e.FS.Listing(1))+len(e.FS.Listing(2)) > 0
	v.Facts["time_travel_used"] = st.traveled
	v.Facts["opened_after_shrink"] = st.openedAfterShrink
	return v
}

func runC18(t testingT, p *Program) *Result {
	st := &c18state{}
	return RunHIST(t, p, func(e *Env) {
		c18cur = st
		e.AfterOp = func(e *Env, i int, op *Op, res string) *Violation {
			// the source's committed size decreased at some point of the run: files
			// written after that are "shrinking files" whether the reader had the
			// replica open at the time or opens it later (finding F4 covers both
			// the poll path and the open path, which share the index builder)
			n := e.Led.Last().NPages
			if n < st.maxPages {
				st.shrunk = true
			}
			if n > st.maxPages {
				st.maxPages = n
			}
			return nil
		}
		e.Cleanup = append(e.Cleanup, func() {
			if st.f != nil {
				st.f.Close()
				st.f = nil
			}
			c18cur = nil
		})
	})
}

var c18cur *c18state

func (e *Env) c18check(st *c18state, when string) *Violation {
	// reads issued by the oracle are not scheduling points
	prev := e.inHook
	e.inHook = true
	defer func() { e.inHook = prev }()
	return e.c18facts(st, e.c18check0(st, when))
}

func (e *Env) c18check0(st *c18state, when string) *Violation {
	if !st.travelT.IsZero() {
		return nil // a time-travel view is active; vfs_check_time compares it
	}
	f := st.f
	pos := f.Pos().TXID
	txid := pos
	if st.lockedAt != 0 {
		txid = st.lockedAt // a reader holding SHARED keeps the view it started with
	}
	e.Res.Checks++
	want, err := e.restoreAlone(func(o *litestream.RestoreOptions) { o.TXID = txid })
	if err != nil {
		e.Res.Probes["vfs_txid_not_restorable"]++
		return nil
	}
	size, err := f.FileSize()
	if err != nil {
		return e.fail("vfs-filesize-error", "%s: FileSize failed: %v", when, err)
	}
	if st.lockedAt == 0 && size != int64(len(want)) {
		v := e.fail("vfs-size", "%s: VFS file reports size %d, a full restore at TXID %d has %d bytes", when, size, txid, len(want))
		return v
	}
	ps := e.Led.PageSize
	buf := make([]byte, ps)
	for pg := 0; pg*ps < len(want); pg++ {
		n, err := f.ReadAt(buf, int64(pg*ps))
		if err != nil || n != ps {
			v := e.fail("vfs-read-error", "%s: reading page %d of %d at TXID %d through the VFS failed: n=%d err=%v", when, pg+1, len(want)/ps, txid, n, err)
			v.Facts["locked"] = st.lockedAt != 0
			return v
		}
		a := append([]byte(nil), buf...)
		b := append([]byte(nil), want[pg*ps:(pg+1)*ps]...)
		if pg == 0 {
			a = maskFollow(a)
			b = maskFollow(b)
		}
		if !bytes.Equal(a, b) {
			v := e.fail("vfs-page-differs", "%s: page %d served by the VFS differs from the full restore at TXID %d", when, pg+1, txid)
			v.Facts["locked"] = st.lockedAt != 0
			return v
		}
	}
	e.Res.Probes["vfs_views_compared"]++
	return nil
}

func openVFS(e *Env, st *c18state, set func(*Env, *Violation)) (string, bool) {
	cl := &yieldClient{ReplicaClient: file.NewReplicaClient(e.RepDir), e: e}
	st.client = cl
	if st.shrunk {
		st.openedAfterShrink = true
	}
	f := litestream.NewVFSFile(cl, "db", e.probeLogger())
	f.PollInterval = 10000 * time.Hour // polls are issued by the program, one at a time
	f.CacheSize = []int{1, 64 << 10, 10 << 20}[int(e.Prog.Seed%3)]
	if err := f.Open(); err != nil {
		cl.failNext = false
		e.Res.Probes["vfs_open_errors"]++
		return errStr(err), false
	}
	cl.failNext = false
	st.f = f
	set(e, e.c18check(st, "after open"))
	return "ok", false
}

func init() {
	ctx := context.Background()
	set := func(e *Env, v *Violation) {
		if v != nil && e.Viol == nil {
			e.Viol = v
		}
	}
	extraOps["vfs_open"] = func(e *Env, op *Op) (string, bool) {
		st := c18cur
		if st == nil || st.f != nil {
			return "noop", false
		}
		if len(e.FS.Listing(0)) == 0 {
			return "noop:empty", false
		}
		return openVFS(e, st, set)
	}
	// vfs_reopen: the reader closes its file and opens the replica again (a new
	// reader process); remote calls of the open path may fail (vfs_client_fail)
	extraOps["vfs_reopen"] = func(e *Env, op *Op) (string, bool) {
		st := c18cur
		if st == nil || !st.travelT.IsZero() {
			return "noop", false
		}
		if st.f != nil {
			if st.lockedAt != 0 {
				st.f.Unlock(sqlite3vfs.LockNone)
				st.lockedAt = 0
			}
			st.f.Close()
			st.f = nil
		}
		if len(e.FS.Listing(0)) == 0 {
			return "noop:empty", false
		}
		e.Res.Probes["vfs_reopens"]++
		return openVFS(e, st, set)
	}
	harnessSteps["vfs_client_fail"] = func(e *Env, s *Step) string {
		st := c18cur
		if st == nil || st.client == nil {
			return "noop"
		}
		st.client.failNext = true
		return "ok"
	}
	extraOps["vfs_poll"] = func(e *Env, op *Op) (string, bool) {
		st := c18cur
		if st == nil || st.f == nil {
			return "noop", false
		}
		err := st.f.VerifPoll(ctx)
		e.Res.Probes["vfs_polls"]++
		if err != nil {
			e.Res.Probes["vfs_poll_errors"]++
			return errStr(err), false
		}
		set(e, e.c18check(st, fmt.Sprintf("after poll (op %d)", e.curOp)))
		return fmt.Sprintf("ok pos=%d", st.f.Pos().TXID), false
	}
	harnessSteps["vfs_set_time"] = func(e *Env, s *Step) string {
		st := c18cur
		if st == nil || st.f == nil || st.lockedAt != 0 || !st.travelT.IsZero() {
			return "noop"
		}
		files := e.FS.Listing(0)
		if len(files) == 0 {
			return "noop"
		}
		T := files[s.N%len(files)].CreatedAt.Add(time.Duration(s.N%3-1) * time.Millisecond)
		st.travelWant, st.travelErr = e.restoreAlone(func(o *litestream.RestoreOptions) { o.Timestamp = T })
		if err := st.f.SetTargetTime(ctx, T); err != nil {
			st.travelWant, st.travelErr = nil, nil
			return errStr(err)
		}
		st.travelT = T
		st.traveled = true
		e.Res.Probes["vfs_time_set_during_poll"]++
		return "ok " + T.Format(time.RFC3339Nano)
	}
	extraOps["vfs_check_time"] = func(e *Env, op *Op) (string, bool) {
		st := c18cur
		if st == nil || st.f == nil || st.travelT.IsZero() {
			return "noop", false
		}
		T, want, werr := st.travelT, st.travelWant, st.travelErr
		st.travelT, st.travelWant, st.travelErr = time.Time{}, nil, nil
		prevHook := e.inHook
		e.inHook = true // the oracle's reads are not scheduling points
		defer func() { e.inHook = prevHook }()
		if werr == nil {
			ps := e.Led.PageSize
			buf := make([]byte, ps)
			for pg := 0; pg*ps < len(want); pg++ {
				n, rerr := st.f.ReadAt(buf, int64(pg*ps))
				a := append([]byte(nil), buf...)
				b := append([]byte(nil), want[pg*ps:(pg+1)*ps]...)
				if pg == 0 {
					a, b = maskFollow(a), maskFollow(b)
				}
				if rerr != nil || n != ps || !bytes.Equal(a, b) {
					v := e.c18facts(st, e.fail("vfs-time-travel-differs", "target time %s was set while a poll was in flight; after the poll page %d of the time-travel view differs from Restore(timestamp) (n=%d err=%v)", T.Format(time.RFC3339Nano), pg+1, n, rerr))
					v.Facts["set_during_poll"] = true
					set(e, v)
					break
				}
			}
			if sz, _ := st.f.FileSize(); sz != int64(len(want)) && e.Viol == nil {
				v := e.c18facts(st, e.fail("vfs-time-travel-size", "target time %s was set while a poll was in flight; after the poll the view reports size %d, Restore(timestamp) has %d", T.Format(time.RFC3339Nano), sz, len(want)))
				v.Facts["set_during_poll"] = true
				set(e, v)
			}
			e.Res.Probes["vfs_time_checked_after_poll"]++
		}
		if rerr := st.f.ResetTime(ctx); rerr != nil {
			return errStr(rerr), false
		}
		set(e, e.c18check(st, "after leaving time travel"))
		return "ok", false
	}
	extraOps["vfs_lock"] = func(e *Env, op *Op) (string, bool) {
		st := c18cur
		if st == nil || st.f == nil || st.lockedAt != 0 {
			return "noop", false
		}
		if err := st.f.Lock(sqlite3vfs.LockShared); err != nil {
			return errStr(err), false
		}
		st.lockedAt = st.f.Pos().TXID
		e.Res.Probes["vfs_locks"]++
		return "ok", false
	}
	extraOps["vfs_unlock"] = func(e *Env, op *Op) (string, bool) {
		st := c18cur
		if st == nil || st.f == nil || st.lockedAt == 0 {
			return "noop", false
		}
		if err := st.f.Unlock(sqlite3vfs.LockNone); err != nil {
			return errStr(err), false
		}
		st.lockedAt = 0
		set(e, e.c18check(st, fmt.Sprintf("after unlock (op %d)", e.curOp)))
		return "ok", false
	}
	extraOps["vfs_time_travel"] = func(e *Env, op *Op) (string, bool) {
		st := c18cur
		if st == nil || st.f == nil || st.lockedAt != 0 {
			return "noop", false
		}
		files := e.FS.Listing(0)
		if len(files) == 0 {
			return "noop", false
		}
		T := files[int(op.N)%len(files)].CreatedAt.Add(time.Duration(op.N%3-1) * time.Millisecond)
		want, werr := e.restoreAlone(func(o *litestream.RestoreOptions) { o.Timestamp = T })
		err := st.f.SetTargetTime(ctx, T)
		e.Res.Probes["vfs_time_travels"]++
		st.traveled = true
		if err == nil && werr == nil {
			ps := e.Led.PageSize
			buf := make([]byte, ps)
			for pg := 0; pg*ps < len(want); pg++ {
				n, rerr := st.f.ReadAt(buf, int64(pg*ps))
				a := append([]byte(nil), buf...)
				b := append([]byte(nil), want[pg*ps:(pg+1)*ps]...)
				if pg == 0 {
					a, b = maskFollow(a), maskFollow(b)
				}
				if rerr != nil || n != ps || !bytes.Equal(a, b) {
					set(e, e.c18facts(st, e.fail("vfs-time-travel-differs", "time-travel view at %s: page %d differs from Restore(timestamp) (n=%d err=%v)", T.Format(time.RFC3339Nano), pg+1, n, rerr)))
					break
				}
			}
			if sz, _ := st.f.FileSize(); sz != int64(len(want)) && e.Viol == nil {
				set(e, e.c18facts(st, e.fail("vfs-time-travel-size", "time-travel view at %s reports size %d, Restore(timestamp) has %d", T.Format(time.RFC3339Nano), sz, len(want))))
			}
		} else if (err == nil) != (werr == nil) {
			e.Res.Probes["vfs_time_travel_outcome_differs"]++
		}
		if rerr := st.f.ResetTime(ctx); rerr != nil {
			return errStr(rerr), false
		}
		set(e, e.c18check(st, "after leaving time travel"))
		return errStr(err), false
	}
	register(&Prop{ID: "C18", Engine: "HIST", Gen: genC18, Run: runC18, Nontrivial: func(r *Result) bool {
		return r.Probes["vfs_views_compared"] >= 2 && r.Probes["vfs_polls"] >= 1
	}})
}
