package sim

import (
	"bufio"
	"encoding/json"
	"fmt"
	"os"
	"path/filepath"
	"testing"
	"time"
)

// Job is what the driver hands to one worker process.
type Job struct {
	Mode       string `json:"mode"` // run | replay | gen
	Property   string `json:"property"`
	Tier       string `json:"tier"`
	Seed       uint64 `json:"seed"`
	Worker     int    `json:"worker"`
	NWorkers   int    `json:"nworkers"`
	Runs       int    `json:"runs"`
	DeadlineS  int64  `json:"deadline_s"` // wall-clock cap for this worker (seconds from start)
	Out        string `json:"out"`
	ReplayDir  string `json:"replay_dir"`
	ReplayPath string `json:"replay_path"`
	KeepEvents bool   `json:"keep_events"`
	MinimiseS  int64  `json:"minimise_s"`
	MaxViol    int    `json:"max_violations"`
	Index      int    `json:"index"`
	KnownPath  string `json:"known_path"`
}

type knownFinding struct {
	ID       string         `json:"id"`
	Property string         `json:"property"`
	Class    string         `json:"class"`
	Classes  []string       `json:"classes"`
	Match    map[string]any `json:"match"`
}

func loadKnown(path string) []knownFinding {
	var k struct {
		Findings []knownFinding `json:"findings"`
	}
	b, err := os.ReadFile(path)
	if err != nil {
		return nil
	}
	_ = json.Unmarshal(b, &k)
	return k.Findings
}

func matchKnown(ks []knownFinding, v *Violation) string {
	vb, _ := json.Marshal(v.Facts)
	var facts map[string]any
	_ = json.Unmarshal(vb, &facts)
	for _, k := range ks {
		if k.Property != v.Property {
			continue
		}
		if k.Class != "" && k.Class != v.Class {
			continue
		}
		if len(k.Classes) > 0 {
			ok := false
			for _, c := range k.Classes {
				if c == v.Class {
					ok = true
				}
			}
			if !ok {
				continue
			}
		}
		ok := true
		for key, want := range k.Match {
			if lst, isList := want.([]any); isList {
				found := false
				for _, w := range lst {
					if fmt.Sprint(facts[key]) == fmt.Sprint(w) {
						found = true
					}
				}
				if !found {
					ok = false
					break
				}
				continue
			}
			if fmt.Sprint(facts[key]) != fmt.Sprint(want) {
				ok = false
				break
			}
		}
		if ok {
			return k.ID
		}
	}
	return ""
}

type outLine struct {
	Result  *Result  `json:"result"`
	Program *Program `json:"program,omitempty"`
	Replay  string   `json:"replay,omitempty"`
	MinRuns int      `json:"min_runs,omitempty"`
}

func TestWorker(t *testing.T) {
	jp := os.Getenv("VERIF_JOB")
	if jp == "" {
		t.Skip("no VERIF_JOB")
	}
	b, err := os.ReadFile(jp)
	if err != nil {
		t.Fatal(err)
	}
	var job Job
	if err := json.Unmarshal(b, &job); err != nil {
		t.Fatal(err)
	}
	prop := Props[job.Property]
	if prop == nil {
		t.Fatalf("unknown property %q", job.Property)
	}
	switch job.Mode {
	case "run":
		workerRun(t, prop, &job)
	case "replay":
		workerReplay(t, prop, &job)
	case "gen":
		seed := RunSeed(job.Seed, prop.ID, job.Index)
		p := prop.Gen(NewRng(seed), job.Tier, job.Index)
		p.Seed = seed
		b, _ := json.MarshalIndent(p, "", " ")
		fmt.Println(string(b))
	default:
		t.Fatalf("unknown mode %q", job.Mode)
	}
}

func workerRun(t *testing.T, prop *Prop, job *Job) {
	f, err := os.Create(job.Out)
	if err != nil {
		t.Fatal(err)
	}
	defer f.Close()
	w := bufio.NewWriter(f)
	defer w.Flush()
	enc := json.NewEncoder(w)
	start := time.Now()
	known := loadKnown(job.KnownPath)
	nviol := 0
	if job.MaxViol == 0 {
		job.MaxViol = 2
	}
	for i := job.Worker; i < job.Runs; i += job.NWorkers {
		if job.DeadlineS > 0 && time.Since(start) > time.Duration(job.DeadlineS)*time.Second {
			break
		}
		seed := RunSeed(job.Seed, prop.ID, i)
		p := prop.Gen(NewRng(seed), job.Tier, i)
		p.Seed = seed
		cur := job.Out + ".cur.json"
		WriteJSON(cur, map[string]any{"index": i, "seed": seed, "program": p})
		res := prop.Run(t, p)
		os.Remove(cur)
		res.Index = i
		res.Signature = signature(p, res)
		if prop.Nontrivial != nil {
			res.Nontrivial = prop.Nontrivial(res)
		}
		line := outLine{Result: res}
		if i < 3 || res.Violation != nil || res.Trouble != "" {
			line.Program = p
		}
		if res.Violation != nil {
			os.MkdirAll(job.ReplayDir, 0o755)
			path := filepath.Join(job.ReplayDir, fmt.Sprintf("%s-%d.json", res.Violation.Class, seed))
			rf := &ReplayFile{Property: prop.ID, Class: res.Violation.Class, Msg: res.Violation.Msg, Seed: seed, Program: p, Events: res.Events, Violation: res.Violation}
			WriteJSON(path, rf)
			line.Replay = path
			// minimise
			mb := time.Duration(job.MinimiseS) * time.Second
			if mb == 0 {
				mb = 60 * time.Second
			}
			mp, mres, runs := Minimise(t, prop, p, res.Violation.Class, mb)
			line.MinRuns = runs
			if mres != nil && mres.Violation != nil {
				rf = &ReplayFile{Property: prop.ID, Class: mres.Violation.Class, Msg: mres.Violation.Msg, Seed: seed, Minimised: true,
					Program: mp, Original: p, Events: mres.Events, Violation: mres.Violation}
				WriteJSON(path, rf)
				res.Violation = mres.Violation
			}
			if matchKnown(known, res.Violation) == "" {
				nviol++
			}
		}
		if !job.KeepEvents && res.Violation == nil && res.Trouble == "" {
			res.Events = nil
		}
		if err := enc.Encode(&line); err != nil {
			t.Fatal(err)
		}
		w.Flush()
		if nviol >= job.MaxViol {
			break
		}
	}
}

func workerReplay(t *testing.T, prop *Prop, job *Job) {
	b, err := os.ReadFile(job.ReplayPath)
	if err != nil {
		t.Fatal(err)
	}
	var rf ReplayFile
	if err := json.Unmarshal(b, &rf); err != nil {
		t.Fatal(err)
	}
	res := prop.Run(t, rf.Program)
	same := res.Violation != nil && rf.Violation != nil && res.Violation.Class == rf.Violation.Class
	evSame := len(res.Events) == len(rf.Events)
	if evSame {
		for i := range res.Events {
			if res.Events[i] != rf.Events[i] {
				evSame = false
				break
			}
		}
	}
	out := map[string]any{"result": res, "same_violation": same, "same_events": evSame}
	ob, _ := json.MarshalIndent(out, "", " ")
	if job.Out != "" {
		os.WriteFile(job.Out, ob, 0o644)
	} else {
		fmt.Println(string(ob))
	}
}

// TestNode is the entry point of NODE-engine child processes.
func TestNode(t *testing.T) { nodeEntry(t) }
