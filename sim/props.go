package sim

import (
	"crypto/sha256"
	"fmt"
	"sort"
	"strings"
)

// Prop is one property check.
type Prop struct {
	ID     string
	Engine string
	// Gen generates run idx of a tier from the run's own Rng.
	Gen func(r *Rng, tier string, idx int) *Program
	// Run executes a program and reports.
	Run func(t testingT, p *Program) *Result
	// Runs is the default number of runs per tier.
	Runs map[string]int
	// Nontrivial decides whether a run counts as non-trivial.
	Nontrivial func(res *Result) bool
	Rule       string
	RealStub   map[string]string
	Assumptions []string
	// Enumerate, if set, replaces seeded generation in thorough tier for exhaustively enumerated sub-spaces.
}

var Props = map[string]*Prop{}

func register(p *Prop) { Props[p.ID] = p }

// signature hashes the logical shape of a run: op kinds, interposition sites,
// faults fired and the set of probes reached.
func signature(p *Program, res *Result) string {
	var sb strings.Builder
	fmt.Fprintf(&sb, "ps=%d av=%d ", p.Cfg.PageSize, p.Cfg.AutoVacuum)
	for _, op := range p.Ops {
		sb.WriteString(op.Kind)
		if op.Step != nil {
			sb.WriteString(":" + op.Step.K + op.Step.Mode)
		}
		sb.WriteString(op.Mode)
		for _, ip := range op.Interpose {
			sb.WriteString("@" + ip.Site)
		}
		sb.WriteString(",")
	}
	var ks []string
	for k, v := range res.FaultsHit {
		if v > 0 {
			ks = append(ks, "F:"+k)
		}
	}
	for k := range res.Probes {
		if strings.HasPrefix(k, "log:") {
			ks = append(ks, k)
		}
	}
	sort.Strings(ks)
	sb.WriteString(strings.Join(ks, ";"))
	h := sha256.Sum256([]byte(sb.String()))
	return fmt.Sprintf("%x", h[:8])
}

func stdRealStub() map[string]string {
	return map[string]string{
		"litestream.DB/Replica/Store/Compactor/WALReader/restore": "real",
		"file.ReplicaClient":                       "real (on tmpfs)",
		"ltx library":                              "real (trusted base for decoding in oracles)",
		"SQLite (modernc), application and litestream sides": "real",
		"clock/timers":                             "stub: testing/synctest fake clock",
		"application":                              "stub: generated SQL client",
		"background monitors":                      "not started: every monitor tick is an explicit op of the program",
		"S3/GCS/ABS/SFTP/NATS/OSS/WebDAV clients":  "not run",
	}
}
