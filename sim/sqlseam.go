package sim

import (
	"context"
	"database/sql"
	"database/sql/driver"
	"fmt"
	"strings"
	"sync"

	"github.com/benbjohnson/litestream/verifhook"
	"modernc.org/sqlite"
)

// SQL seam: litestream's own connection to the source database is opened with
// the driver name verifhook.SQLDriver. The simulator points it at a wrapper of
// the real "sqlite" driver that calls verifhook.Yield("sql:<verb>[:<table>]")
// before every statement, transaction begin, commit and rollback. Every point
// at which litestream takes or releases a SQLite lock is thereby a scheduling
// point: the application can commit, roll back or checkpoint between any two of
// litestream's statements (what a busy handler's sleep allows in a real
// deployment; the real busy handler is disabled, BusyTimeout=0, because it
// sleeps on the wall clock).

const simDriverName = "sqlite-simseam"

var sqlSeamOnce sync.Once

func installSQLSeam() {
	sqlSeamOnce.Do(func() {
		db, err := sql.Open("sqlite", "file:/nonexistent?mode=memory")
		if err != nil {
			panic(err)
		}
		inner := db.Driver()
		db.Close()
		sql.Register(simDriverName, &seamDriver{inner: inner})
	})
	verifhook.SQLDriver = simDriverName
}

// sqlFault, if set (harness step "sql_fail" at a sql:* site), is returned by the
// statement that is about to run instead of executing it.
var sqlFault error

// sqlFaultsOn is set before a run starts and only read while it runs (the CONC
// engine, where several goroutines execute statements, never injects SQL faults
// and must not share a mutable variable between tasks).
var sqlFaultsOn bool

func takeSQLFault() error {
	if !sqlFaultsOn {
		return nil
	}
	err := sqlFault
	sqlFault = nil
	return err
}

func uninstallSQLSeam() { verifhook.SQLDriver = "sqlite" }

func sqlSite(query string) string {
	q := strings.TrimSpace(query)
	i := 0
	for i < len(q) && ((q[i] >= 'a' && q[i] <= 'z') || (q[i] >= 'A' && q[i] <= 'Z')) {
		i++
	}
	site := "sql:" + strings.ToLower(q[:i])
	if j := strings.Index(q, "_litestream_"); j >= 0 {
		k := j
		for k < len(q) && (q[k] == '_' || (q[k] >= 'a' && q[k] <= 'z')) {
			k++
		}
		site += ":" + q[j+len("_litestream_"):k]
	} else if strings.HasPrefix(site, "sql:pragma") {
		rest := strings.TrimSpace(q[i:])
		k := 0
		for k < len(rest) && (rest[k] == '_' || (rest[k] >= 'a' && rest[k] <= 'z') || (rest[k] >= 'A' && rest[k] <= 'Z')) {
			k++
		}
		site += ":" + strings.ToLower(rest[:k])
	}
	return site
}

type seamDriver struct{ inner driver.Driver }

func (d *seamDriver) Open(name string) (driver.Conn, error) {
	c, err := d.inner.Open(name)
	if err != nil {
		return nil, err
	}
	return &seamConn{c: c}, nil
}

type seamConn struct{ c driver.Conn }

func (c *seamConn) Prepare(q string) (driver.Stmt, error) { return c.c.Prepare(q) }
func (c *seamConn) Close() error                          { return c.c.Close() }
func (c *seamConn) Begin() (driver.Tx, error) { //nolint
	verifhook.Yield("sql:begin")
	tx, err := c.c.Begin() //nolint
	if err != nil {
		return nil, err
	}
	return &seamTx{tx}, nil
}

func (c *seamConn) BeginTx(ctx context.Context, opts driver.TxOptions) (driver.Tx, error) {
	verifhook.Yield("sql:begin")
	if b, ok := c.c.(driver.ConnBeginTx); ok {
		tx, err := b.BeginTx(ctx, opts)
		if err != nil {
			return nil, err
		}
		return &seamTx{tx}, nil
	}
	tx, err := c.c.Begin() //nolint
	if err != nil {
		return nil, err
	}
	return &seamTx{tx}, nil
}

func (c *seamConn) PrepareContext(ctx context.Context, q string) (driver.Stmt, error) {
	if p, ok := c.c.(driver.ConnPrepareContext); ok {
		return p.PrepareContext(ctx, q)
	}
	return c.c.Prepare(q)
}

func (c *seamConn) ExecContext(ctx context.Context, q string, args []driver.NamedValue) (driver.Result, error) {
	e, ok := c.c.(driver.ExecerContext)
	if !ok {
		return nil, driver.ErrSkip
	}
	verifhook.Yield(sqlSite(q))
	if err := takeSQLFault(); err != nil {
		return nil, err
	}
	return e.ExecContext(ctx, q, args)
}

func (c *seamConn) QueryContext(ctx context.Context, q string, args []driver.NamedValue) (driver.Rows, error) {
	e, ok := c.c.(driver.QueryerContext)
	if !ok {
		return nil, driver.ErrSkip
	}
	verifhook.Yield(sqlSite(q))
	if err := takeSQLFault(); err != nil {
		return nil, err
	}
	return e.QueryContext(ctx, q, args)
}

func (c *seamConn) Ping(ctx context.Context) error {
	if p, ok := c.c.(driver.Pinger); ok {
		return p.Ping(ctx)
	}
	return nil
}

func (c *seamConn) ResetSession(ctx context.Context) error {
	if p, ok := c.c.(driver.SessionResetter); ok {
		return p.ResetSession(ctx)
	}
	return nil
}

func (c *seamConn) IsValid() bool {
	if p, ok := c.c.(driver.Validator); ok {
		return p.IsValid()
	}
	return true
}

// FileControlPersistWAL forwards modernc's sqlite.FileControl, which litestream
// reaches through sql.Conn.Raw.
func (c *seamConn) FileControlPersistWAL(dbName string, mode int) (int, error) {
	fc, ok := c.c.(sqlite.FileControl)
	if !ok {
		return 0, fmt.Errorf("wrapped driver does not implement FileControl")
	}
	return fc.FileControlPersistWAL(dbName, mode)
}

type seamTx struct{ tx driver.Tx }

func (t *seamTx) Commit() error {
	verifhook.Yield("sql:commit")
	return t.tx.Commit()
}

func (t *seamTx) Rollback() error {
	verifhook.Yield("sql:rollback")
	return t.tx.Rollback()
}
