package sim

import (
	"bytes"
	"crypto/sha256"
	"database/sql"
	"encoding/binary"
	"fmt"
	"io"
	"os"
	"path/filepath"
	"sort"
)

// Independent WAL decoder and ledger of committed states. This is harness code:
// it deliberately shares nothing with litestream's WALReader.

type Page struct {
	Data []byte
	Sum  [32]byte
}

func newPage(b []byte) *Page {
	p := &Page{Data: append([]byte(nil), b...)}
	p.Sum = sha256.Sum256(p.Data)
	return p
}

// State is one committed state of the database: page number -> page image.
type State struct {
	Index  int
	Tag    string // "base" | "app" | "ls"
	NPages uint32
	Pages  map[uint32]*Page
	hash   string
}

func (s *State) Hash() string {
	if s.hash != "" {
		return s.hash
	}
	h := sha256.New()
	var b [4]byte
	binary.BigEndian.PutUint32(b[:], s.NPages)
	h.Write(b[:])
	for pg := uint32(1); pg <= s.NPages; pg++ {
		if p := s.Pages[pg]; p != nil {
			h.Write(p.Sum[:])
		} else {
			h.Write([]byte("missing"))
		}
	}
	s.hash = fmt.Sprintf("%x", h.Sum(nil)[:12])
	return s.hash
}

// Bytes renders the state as a database file image.
func (s *State) Bytes(pageSize int) []byte {
	out := make([]byte, int(s.NPages)*pageSize)
	for pg := uint32(1); pg <= s.NPages; pg++ {
		if p := s.Pages[pg]; p != nil {
			copy(out[int(pg-1)*pageSize:], p.Data)
		}
	}
	return out
}

func (s *State) clone() *State {
	n := &State{NPages: s.NPages, Pages: make(map[uint32]*Page, len(s.Pages)+8)}
	for k, v := range s.Pages {
		n.Pages[k] = v
	}
	return n
}

// StateFromImage builds a State from a database file image.
func StateFromImage(img []byte, pageSize int) *State {
	s := &State{Pages: map[uint32]*Page{}}
	n := len(img) / pageSize
	s.NPages = uint32(n)
	for i := 0; i < n; i++ {
		s.Pages[uint32(i+1)] = newPage(img[i*pageSize : (i+1)*pageSize])
	}
	return s
}

// DiffStates describes the first difference between a state and an image.
func DiffImage(s *State, img []byte, pageSize int) string {
	if len(img)%pageSize != 0 {
		return fmt.Sprintf("image size %d not a multiple of page size %d", len(img), pageSize)
	}
	n := uint32(len(img) / pageSize)
	if n != s.NPages {
		return fmt.Sprintf("page count %d != expected %d", n, s.NPages)
	}
	for pg := uint32(1); pg <= n; pg++ {
		p := s.Pages[pg]
		got := img[int(pg-1)*pageSize : int(pg)*pageSize]
		if p == nil {
			return fmt.Sprintf("page %d missing in expected state", pg)
		}
		if !bytes.Equal(p.Data, got) {
			return fmt.Sprintf("page %d differs", pg)
		}
	}
	return ""
}

type Ledger struct {
	DBPath   string
	WALPath  string
	PageSize int

	States  []*State
	byHash  map[string][]int
	cur     *State
	LastApp int // index of the last state tagged app/base

	walHdr    []byte
	bigEndCks bool
	salt1     uint32
	salt2     uint32
	ck1, ck2  uint32 // checksum after the last committed frame
	nFrames   int    // frames consumed up to and including the last commit frame
	Generations int  // WAL generations seen
	Gaps        int  // generation changes at which commits had been missed (resynchronised from the database file)
	FramesInGen int  // valid frames (committed) in current generation
}

func readDBPageSize(path string) (int, error) {
	f, err := os.Open(path)
	if err != nil {
		return 0, err
	}
	defer f.Close()
	var hdr [100]byte
	if _, err := io.ReadFull(f, hdr[:]); err != nil {
		return 0, err
	}
	ps := int(binary.BigEndian.Uint16(hdr[16:18]))
	if ps == 1 {
		ps = 65536
	}
	return ps, nil
}

func NewLedger(dbPath string) (*Ledger, error) {
	l := &Ledger{DBPath: dbPath, WALPath: dbPath + "-wal", byHash: map[string][]int{}}
	if err := l.Rebase("base"); err != nil {
		return nil, err
	}
	return l, nil
}

func (l *Ledger) appendState(s *State, tag string) {
	s.Index = len(l.States)
	s.Tag = tag
	l.States = append(l.States, s)
	l.byHash[s.Hash()] = append(l.byHash[s.Hash()], s.Index)
	if tag != "ls" {
		l.LastApp = s.Index
	}
	l.cur = s
}

func (l *Ledger) Last() *State { return l.cur }

// Lookup returns the indices of the states equal to the hash.
func (l *Ledger) Lookup(hash string) []int { return l.byHash[hash] }

// Rebase recomputes the current state from the database file plus WAL and
// appends it as one new state. Used at start and after the harness replaced
// the database.
func (l *Ledger) Rebase(tag string) error {
	ps, err := readDBPageSize(l.DBPath)
	if err != nil {
		return fmt.Errorf("ledger: read page size: %w", err)
	}
	l.PageSize = ps
	img, err := os.ReadFile(l.DBPath)
	if err != nil {
		return err
	}
	base := StateFromImage(img, ps)
	l.cur = base
	l.walHdr = nil
	l.nFrames = 0
	l.FramesInGen = 0
	n, err := l.scan(tag, true)
	if err != nil {
		return err
	}
	_ = n
	l.cur.hash = ""
	l.appendState(l.cur, tag)
	return nil
}

// Observe consumes newly committed WAL frames and appends one state per commit.
func (l *Ledger) Observe(tag string) (int, error) { return l.scan(tag, false) }

func walChecksum(big bool, s0, s1 uint32, b []byte) (uint32, uint32) {
	for i := 0; i+8 <= len(b); i += 8 {
		var x, y uint32
		if big {
			x, y = binary.BigEndian.Uint32(b[i:]), binary.BigEndian.Uint32(b[i+4:])
		} else {
			x, y = binary.LittleEndian.Uint32(b[i:]), binary.LittleEndian.Uint32(b[i+4:])
		}
		s0 += x + s1
		s1 += y + s0
	}
	return s0, s1
}

func (l *Ledger) scan(tag string, quiet bool) (int, error) {
	f, err := os.Open(l.WALPath)
	if err != nil {
		if os.IsNotExist(err) {
			l.walHdr = nil
			l.nFrames = 0
			l.FramesInGen = 0
			return 0, nil
		}
		return 0, err
	}
	defer f.Close()
	hdr := make([]byte, 32)
	if n, _ := f.ReadAt(hdr, 0); n < 32 {
		l.walHdr = nil
		l.nFrames = 0
		l.FramesInGen = 0
		return 0, nil
	}
	magic := binary.BigEndian.Uint32(hdr[0:])
	if magic != 0x377f0682 && magic != 0x377f0683 {
		l.walHdr = nil
		l.nFrames = 0
		return 0, nil
	}
	big := magic == 0x377f0683
	c1, c2 := walChecksum(big, 0, 0, hdr[:24])
	if c1 != binary.BigEndian.Uint32(hdr[24:]) || c2 != binary.BigEndian.Uint32(hdr[28:]) ||
		binary.BigEndian.Uint32(hdr[4:]) != 3007000 {
		l.walHdr = nil
		l.nFrames = 0
		return 0, nil
	}
	if ps := int(binary.BigEndian.Uint32(hdr[8:])); ps != l.PageSize {
		return 0, fmt.Errorf("ledger: wal page size %d != db page size %d", ps, l.PageSize)
	}
	if !bytes.Equal(hdr, l.walHdr) {
		if !quiet && l.cur != nil {
			// A new WAL generation starts only after the previous one was fully
			// back-filled, so the database file now equals the state at the end of
			// the previous generation. If that is not the ledger's current state,
			// commits were made and checkpointed away between two observations
			// (possible only for litestream's own bookkeeping commits inside one
			// op of a node process): resynchronise from the file.
			if img, err := os.ReadFile(l.DBPath); err == nil && len(img)%l.PageSize == 0 {
				st := StateFromImage(img, l.PageSize)
				if st.Hash() != l.cur.Hash() {
					l.Gaps++
					l.appendState(st, tag)
				}
			}
		}
		l.walHdr = hdr
		l.bigEndCks = big
		l.salt1 = binary.BigEndian.Uint32(hdr[16:])
		l.salt2 = binary.BigEndian.Uint32(hdr[20:])
		l.ck1, l.ck2 = c1, c2
		l.nFrames = 0
		l.FramesInGen = 0
		l.Generations++
	}
	frameSize := int64(24 + l.PageSize)
	buf := make([]byte, frameSize)
	pending := map[uint32]*Page{}
	var order []uint32
	ck1, ck2 := l.ck1, l.ck2
	k := l.nFrames
	added := 0
	for {
		off := 32 + int64(k)*frameSize
		if n, _ := f.ReadAt(buf, off); int64(n) < frameSize {
			break
		}
		if binary.BigEndian.Uint32(buf[8:]) != l.salt1 || binary.BigEndian.Uint32(buf[12:]) != l.salt2 {
			break
		}
		ck1, ck2 = walChecksum(l.bigEndCks, ck1, ck2, buf[:8])
		ck1, ck2 = walChecksum(l.bigEndCks, ck1, ck2, buf[24:])
		if ck1 != binary.BigEndian.Uint32(buf[16:]) || ck2 != binary.BigEndian.Uint32(buf[20:]) {
			break
		}
		pgno := binary.BigEndian.Uint32(buf[0:])
		commit := binary.BigEndian.Uint32(buf[4:])
		if _, ok := pending[pgno]; !ok {
			order = append(order, pgno)
		}
		pending[pgno] = newPage(buf[24:])
		k++
		if commit != 0 {
			var ns *State
			if quiet {
				ns = l.cur
			} else {
				ns = l.cur.clone()
			}
			for pg, p := range pending {
				ns.Pages[pg] = p
			}
			for pg := range ns.Pages {
				if pg > commit {
					delete(ns.Pages, pg)
				}
			}
			ns.NPages = commit
			// a page inside the committed size that no frame and no database-file
			// page defines was allocated but never written (SQLite does not write
			// freelist leaf pages): SQLite reads it as zeros
			lock := uint32(0x40000000/l.PageSize) + 1
			for pg := uint32(1); pg <= commit; pg++ {
				if ns.Pages[pg] == nil && pg != lock {
					ns.Pages[pg] = newPage(make([]byte, l.PageSize))
				}
			}
			ns.hash = ""
			if quiet {
				l.cur = ns
			} else {
				l.appendState(ns, tag)
			}
			added++
			pending = map[uint32]*Page{}
			order = order[:0]
			l.ck1, l.ck2 = ck1, ck2
			l.nFrames = k
			l.FramesInGen = k
		}
	}
	return added, nil
}

// LiveWALFrames returns the number of valid frames (committed or not) in the
// live WAL generation, decoded independently.
func LiveWALFrames(walPath string, pageSize int) (int, error) {
	n, _, err := WALFrameCounts(walPath, pageSize)
	return n, err
}

// WALFrameCounts returns the number of valid frames of the live WAL generation
// and how many of them are committed (up to and including the last commit
// frame - what SQLite calls mxFrame after recovery). Valid frames behind the
// last commit frame belong to a rolled-back or still open transaction whose
// pages spilled out of the page cache; the next writer overwrites them.
func WALFrameCounts(walPath string, pageSize int) (valid, committed int, err error) {
	b, err := os.ReadFile(walPath)
	if err != nil {
		if os.IsNotExist(err) {
			return 0, 0, nil
		}
		return 0, 0, err
	}
	if len(b) < 32 {
		return 0, 0, nil
	}
	magic := binary.BigEndian.Uint32(b[0:])
	if magic != 0x377f0682 && magic != 0x377f0683 {
		return 0, 0, nil
	}
	big := magic == 0x377f0683
	c1, c2 := walChecksum(big, 0, 0, b[:24])
	if c1 != binary.BigEndian.Uint32(b[24:]) || c2 != binary.BigEndian.Uint32(b[28:]) {
		return 0, 0, nil
	}
	s1, s2 := binary.BigEndian.Uint32(b[16:]), binary.BigEndian.Uint32(b[20:])
	fs := 24 + pageSize
	n := 0
	for off := 32; off+fs <= len(b); off += fs {
		fr := b[off : off+fs]
		if binary.BigEndian.Uint32(fr[8:]) != s1 || binary.BigEndian.Uint32(fr[12:]) != s2 {
			break
		}
		c1, c2 = walChecksum(big, c1, c2, fr[:8])
		c1, c2 = walChecksum(big, c1, c2, fr[24:])
		if c1 != binary.BigEndian.Uint32(fr[16:]) || c2 != binary.BigEndian.Uint32(fr[20:]) {
			break
		}
		n++
		if binary.BigEndian.Uint32(fr[4:]) != 0 {
			committed = n
		}
	}
	return n, committed, nil
}

// CrossCheck lets real SQLite recover and checkpoint a copy of db+wal and
// requires the result to equal the ledger's current state. A mismatch is a
// harness error, never a property violation.
func (l *Ledger) CrossCheck(scratch string) error {
	img, err := SQLiteRecoveredImage(l.DBPath, scratch)
	if err != nil {
		return fmt.Errorf("crosscheck: %w", err)
	}
	if d := DiffImage(l.cur, img, l.PageSize); d != "" {
		fi, _ := os.Stat(l.WALPath)
		var wsz int64 = -1
		if fi != nil {
			wsz = fi.Size()
		}
		live, _ := LiveWALFrames(l.WALPath, l.PageSize)
		d += fmt.Sprintf(" [full decode sees %d valid frames]", live)
		return fmt.Errorf("ledger state %d disagrees with SQLite recovery: %s (ledger: %d states, %d frames consumed in generation %d, wal size %d, page size %d)", l.cur.Index, d, len(l.States), l.nFrames, l.Generations, wsz, l.PageSize)
	}
	return nil
}

func copyFile(src, dst string) error {
	b, err := os.ReadFile(src)
	if err != nil {
		return err
	}
	return os.WriteFile(dst, b, 0o644)
}

// SQLiteRecoveredImage copies db(+wal) to scratch, lets SQLite checkpoint it and
// returns the database file image.
func SQLiteRecoveredImage(dbPath, scratch string) ([]byte, error) {
	if err := os.MkdirAll(scratch, 0o755); err != nil {
		return nil, err
	}
	dst := filepath.Join(scratch, "xc.db")
	_ = os.Remove(dst)
	_ = os.Remove(dst + "-wal")
	_ = os.Remove(dst + "-shm")
	if err := copyFile(dbPath, dst); err != nil {
		return nil, err
	}
	if _, err := os.Stat(dbPath + "-wal"); err == nil {
		if err := copyFile(dbPath+"-wal", dst+"-wal"); err != nil {
			return nil, err
		}
	}
	db, err := sql.Open("sqlite", "file:"+dst+"?_pragma=busy_timeout(0)")
	if err != nil {
		return nil, err
	}
	db.SetMaxOpenConns(1)
	var a, b, c int
	if err := db.QueryRow("PRAGMA wal_checkpoint(TRUNCATE)").Scan(&a, &b, &c); err != nil {
		db.Close()
		return nil, fmt.Errorf("checkpoint copy: %w", err)
	}
	if err := db.Close(); err != nil {
		return nil, err
	}
	img, err := os.ReadFile(dst)
	_ = os.Remove(dst)
	_ = os.Remove(dst + "-wal")
	_ = os.Remove(dst + "-shm")
	return img, err
}

// IntegrityCheck runs PRAGMA integrity_check on a copy of the image.
func IntegrityCheck(img []byte, scratch string) (string, error) {
	if err := os.MkdirAll(scratch, 0o755); err != nil {
		return "", err
	}
	dst := filepath.Join(scratch, "ic.db")
	for _, s := range []string{"", "-wal", "-shm"} {
		_ = os.Remove(dst + s)
	}
	if err := os.WriteFile(dst, img, 0o644); err != nil {
		return "", err
	}
	db, err := sql.Open("sqlite", "file:"+dst+"?_pragma=busy_timeout(0)")
	if err != nil {
		return "", err
	}
	db.SetMaxOpenConns(1)
	defer func() {
		db.Close()
		for _, s := range []string{"", "-wal", "-shm"} {
			_ = os.Remove(dst + s)
		}
	}()
	rows, err := db.Query("PRAGMA integrity_check")
	if err != nil {
		return "", err
	}
	defer rows.Close()
	var out []string
	for rows.Next() {
		var s string
		if err := rows.Scan(&s); err != nil {
			return "", err
		}
		out = append(out, s)
	}
	if err := rows.Err(); err != nil {
		return "", err
	}
	sort.Strings(out)
	if len(out) == 1 {
		return out[0], nil
	}
	return fmt.Sprint(out), nil
}
