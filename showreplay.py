#!/usr/bin/env python3
import json,sys,glob
def short(o):
    k=o['kind']
    if k=='app':
        s=o['step']; r='app:'+s['k']+s.get('mode','')
        if s.get('stmts'): r+='['+','.join('%s t%d k%d n%d sz%d'%(x['k'],x['t'],x.get('key',0),x.get('n',0),x.get('sz',0)) for x in s['stmts'])+']'
        if s.get('rollback'): r+=' ROLLBACK'
        return r
    r=k+(' '+o['mode'] if o.get('mode') else '')+(' L%d'%o['level'] if o.get('level') else '')+(' %dms'%o['ms'] if o.get('ms') else '')
    if o.get('steps'): r+=' {'+'; '.join(short({'kind':'app','step':s}) for s in o['steps'])+'}'
    for ip in o.get('interpose',[]): r+=' @%s#%d{'%(ip['site'],ip['nth'])+'; '.join(short({'kind':'app','step':s}) for s in ip['steps'])+'}'
    return r
for pat in sys.argv[1:]:
  for f in sorted(glob.glob(pat)):
    d=json.load(open(f)); p=d['program']; c=p['config']
    print('=====',f.split('/')[-1], 'min' if d['minimised'] else 'RAW', p.get('variant',''))
    print('  ', d['msg'][:400])
    print('   cfg ps=%d av=%d appckpt=%d minckpt=%d trunc=%d ckptms=%d maxwal=%d maxltx=%d initrows=%d gap=%d'%(c['page_size'],c['auto_vacuum'],c['app_autockpt'],c['min_ckpt'],c['truncate_n'],c['ckpt_interval_ms'],c['max_sync_wal_bytes'],c['max_sync_ltx_files'],c['init_rows'],c['step_gap_ms']))
    for i,o in enumerate(p['ops']): print('   %2d %s'%(i,short(o)))
    if '-v' in sys.argv: print('\n'.join('      '+e for e in d['events']))
