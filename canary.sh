#!/bin/bash
# usage: canary.sh <patch.diff> <PROP> [extra check args]  -- applies a patch to /repo, runs the check (no evidence), reverts.
set -u
patch=$1; prop=$2; shift 2
[ -z "$(git -C /repo status --porcelain)" ] || { echo "refusing: /repo has uncommitted changes"; exit 3; }
cd /repo && git apply "$patch" || { echo "patch does not apply"; exit 3; }
cd /verif && ./check "$prop" --no-evidence "$@" ; rc=$?
cd /repo && git checkout -- . 
echo "canary rc=$rc"
exit $rc
