#!/bin/bash
# usage: sweep.sh <tier> <budget_s> <seed> <PROP>...   -- runs the given checks one after another (no evidence), one summary line each
tier=$1; budget=$2; seed=$3; shift 3
cd "$(dirname "$0")"
for p in "$@"; do
  s=$(date +%s)
  out=$(VERIF_SEED=$seed VERIF_BUDGET_S=$budget ./check $p --tier $tier --no-evidence 2>&1); rc=$?
  e=$(date +%s)
  echo "SWEEP $p tier=$tier seed=$seed rc=$rc $((e-s))s"
  echo "$out" | grep -E "$tier:|VIOLATION|KNOWN-FINDING|TROUBLE|NONDET|WARNING|  [a-z0-9-]+: " | cut -c1-400
done
