#!/bin/bash
# usage: seedverify.sh <worktree> -- verifies a seeded change: demo passes without, fails with; suite passes with.
set -u
wt=$1
export GOFLAGS=-mod=mod GOPROXY=off GOSUMDB=off GOTOOLCHAIN=local
GO=/root/go/pkg/mod/golang.org/toolchain@v0.0.1-go1.25.13.linux-amd64/bin/go
cd "$wt" || exit 3
git checkout -q -- . 
demo=$(ls SEEDED/*_test.go | head -1)
pkgline=$(grep -m1 '^package ' "$demo")
cp "$demo" ./zz_seeded_demo_test.go
echo "== without change:"; $GO test -vet=off -count=1 -timeout 300s -run 'Seeded|C03Seed|Seed' . 2>&1 | grep -E "^(ok|FAIL|--- FAIL|panic)" | head -5
git apply SEEDED/patch.diff || { echo "PATCH DOES NOT APPLY"; exit 3; }
echo "== with change:"; $GO test -vet=off -count=1 -timeout 300s -run 'Seeded|C03Seed|Seed' . 2>&1 | grep -E "^(ok|FAIL|--- FAIL|panic)" | head -5
rm -f ./zz_seeded_demo_test.go
echo "== suite with change:"; $GO test -vet=off -count=1 -timeout 20m . ./file/ ./internal/ ./cmd/litestream/ 2>&1 | grep -E "^(ok|FAIL|--- FAIL|panic)" | head -12
git checkout -q -- .
