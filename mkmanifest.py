#!/usr/bin/env python3
"""Regenerates MANIFEST.json from levels.json (single source of per-property metadata)."""
import json, os
ROOT = os.path.dirname(os.path.abspath(__file__))
L = json.load(open(os.path.join(ROOT, "levels.json")))
props = [json.loads(l) for l in open(os.path.join(ROOT, "properties.jsonl"))]
GOENVS = "GOFLAGS=-mod=mod GOPROXY=off GOSUMDB=off GOTOOLCHAIN=local"
checks, na = [], []
for p in props:
    pid = p["id"]
    m = L.get(pid)
    if not m or m.get("not_applicable"):
        na.append(dict(property_id=pid, reason=(m or {}).get("not_applicable", "check not built yet in this session; see DESIGN.md section 3 for the plan")))
        continue
    checks.append(dict(
        property_id=pid,
        quick_cmd="./check %s --tier quick" % pid,
        thorough_cmd="./check %s --tier thorough" % pid,
        evidence_file="evidence/%s.json" % pid,
        replay_cmd_template="./check %s --replay {path}" % pid,
        engine=m.get("engine", ""),
        level_claimed=dict(category=m["level"], text=m.get("level_text", ""), design_ref=m.get("design_ref", "DESIGN.md section 3 " + pid)),
        level_note=m.get("level_note", "; ".join(m.get("assumptions", []))),
        technique=m.get("technique", "deterministic simulation with fault injection: seeded search over generated operation/fault/interleaving programs executed against the real code under a simulated clock, oracle = independent reference model"),
    ))
man = dict(
    version=1,
    setup_cmd="cd sim && %s go1.26.8 test -c -tags verif -o ../build/sim.test . " % GOENVS,
    hooks=dict(
        guard="verif (Go build tag)",
        enable="go1.26.8 test -c -tags verif ./sim (harness module with replace github.com/benbjohnson/litestream => /repo)",
        baseline_off_cmd="cd /repo && %s /root/go/pkg/mod/golang.org/toolchain@v0.0.1-go1.25.13.linux-amd64/bin/go test -vet=off -count=1 -timeout 25m ./..." % GOENVS,
        source_commits=[l.strip() for l in open(os.path.join(ROOT, "MANIFEST.hooks")) if l.strip() and not l.startswith("#")],
        add_only=True,
    ),
    engines=[
        dict(name="HIST", path="sim/hist.go", serves_properties=[c["property_id"] for c in checks if c["engine"] == "HIST"], kind_free_text="single-goroutine history engine inside a testing/synctest bubble; application steps interposed at named yield sites; fault-injecting ReplicaClient wrapper"),
        dict(name="CONC", path="sim/conc.go", serves_properties=[c["property_id"] for c in checks if c["engine"] == "CONC"], kind_free_text="seeded scheduler over parked goroutines inside a bubble"),
        dict(name="NODE", path="sim/node.go", serves_properties=[c["property_id"] for c in checks if c["engine"] == "NODE"], kind_free_text="child process killed with SIGKILL before hooked file-system op #k"),
        dict(name="WAL", path="sim/c09.go", serves_properties=[c["property_id"] for c in checks if c["engine"] == "WAL"], kind_free_text="WALReader over a simulated WAL file with storage faults"),
    ],
    checks=checks,
    not_applicable=na,
    notes="All checks: ./check <ID> [--tier quick|thorough]; VERIF_SEED selects the master seed; exit 0/1/2 = held / VIOLATION / harness trouble. Known findings: known_findings.json. See DESIGN.md.",
)
json.dump(man, open(os.path.join(ROOT, "MANIFEST.json"), "w"), indent=1)
print("checks:", [c["property_id"] for c in checks], "n/a:", [x["property_id"] for x in na])
