#!/bin/bash
# usage: canary2.sh <patch.diff> <PROP> [extra check args]
# Like canary.sh but leaves /repo alone: applies the patch to a scratch worktree of /repo's HEAD under
# /dev/shm, runs the check against it (VERIF_REPO, separate build output and out dir), removes the worktree.
set -u
patch=$(readlink -f "$1"); prop=$2; shift 2
wt=/dev/shm/canary-repo-$$
git -C /repo worktree add -q --detach "$wt" HEAD || exit 3
( cd "$wt" && git apply -C1 "$patch" ) || { echo "patch does not apply"; git -C /repo worktree remove --force "$wt"; exit 3; }
cd /verif && VERIF_REPO="$wt" VERIF_OUT_SUFFIX=-canary ./check "$prop" --no-evidence "$@"; rc=$?
git -C /repo worktree remove --force "$wt"; git -C /repo worktree prune
echo "canary rc=$rc"
exit $rc
