#!/usr/bin/env python3
"""mkcanary.py <out.diff> <file> <old> <new> : writes a git diff for a textual replacement in /repo (tree left unchanged)."""
import sys, subprocess
out, f, old, new = sys.argv[1:5]
p = '/repo/' + f
s = open(p).read()
old = old.encode().decode('unicode_escape'); new = new.encode().decode('unicode_escape')
assert s.count(old) >= 1, "pattern not found"
n = int(sys.argv[5]) if len(sys.argv) > 5 else 1
idx = -1
for _ in range(n):
    idx = s.index(old, idx + 1)
s2 = s[:idx] + new + s[idx + len(old):]
open(p, 'w').write(s2)
d = subprocess.run(['git', '-C', '/repo', 'diff'], capture_output=True, text=True).stdout
subprocess.run(['git', '-C', '/repo', 'checkout', '--', '.'])
open(out, 'w').write(d)
print(d)
